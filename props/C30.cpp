// C30 -- Polynomial roots are roots (DESIGN.md section 5, C30).
// Domain: polynomials from raw coefficients and from generated roots (simple,
// multiple, clustered, zero, widely scaled, conjugate pairs), degree 2 (Vec<3>),
// 3 (Vec<4>) and 2..20 (Vector_), real and complex coefficients, float/double.
// Oracle: all returned roots finite; backward error |p(r)| <= C eps deg sum|a_i||r|^i
// (long double evaluation); Vieta (coefficients rebuilt from the roots, scaled by
// |a0| e_i(|r|)); conjugate pairing for real coefficients; forward multiset match
// for well separated generated roots using the root condition number.
#include "pbt.h"
#include "SimTKcommon.h"
#include <complex>
using namespace SimTK;
typedef long double LD;
typedef std::complex<LD> CL;

namespace {

struct Case {
    int kind;       // 0 Vec<3>, 1 Vec<4>, 2 Vector_
    bool cplx, isFloat;
    int mode;       // 0 raw coefficients, 1 separated roots, 2 multiple/clustered roots, 3 symmetric (+z,-z) pairs
    int deg;
    std::vector<CL> coef;   // exactly representable in T
    std::vector<CL> genRoots; // for modes 1..3 (before rounding of coefficients)
    double minSep;  // relative separation of generated roots (mode 1)
    int hugeBits = 0; // > 0: all coefficients were multiplied by 2^hugeBits (exactly), largest modulus in [1e155, 1e300]
};

template <class T> CL roundTo(CL x) { return CL((LD)(T)x.real(), (LD)(T)x.imag()); }

Case decode(const pbt::Tape& t) {
    Case c; pbt::Reader g(t[0]);
    c.kind = g.pick(3); c.cplx = g.boolean(); c.isFloat = g.chance(1, 4); c.mode = g.pick(4);
    int units = (int)t.size() - 1;
    c.deg = c.kind == 0 ? 2 : c.kind == 1 ? 3 : std::max(2, std::min(20, units));
    double scaleExp = g.real(-6, 6);           // overall root/coefficient scale 10^scaleExp
    if (c.isFloat) scaleExp = std::max(-3.0, std::min(3.0, scaleExp));
    LD scale = std::pow((LD)10, (LD)scaleExp);
    c.minSep = 1e30;
    auto U = [&](int k) { return k + 1 < (int)t.size() ? pbt::Reader(t[k + 1]) : pbt::Reader(); };
    if (c.mode == 0) {
        c.coef.resize(c.deg + 1);
        for (int i = 0; i <= c.deg; ++i) {
            pbt::Reader r = U(i % std::max(1, units));
            if (i >= units) r.skip(4 * (i / std::max(1, units)));
            double e = r.real(-3, 3); LD mag = std::pow((LD)10, (LD)e) * scale;
            LD re = mag * r.real(-1, 1), im = c.cplx ? mag * r.real(-1, 1) : 0;
            bool zero = r.chance(1, 8);
            if (zero && i > 0) re = im = 0;
            c.coef[i] = CL(re, im);
        }
        if (std::abs(c.coef[0]) == 0) c.coef[0] = CL(scale, 0);
    } else {
        std::vector<CL> roots;
        int k = 0;
        while ((int)roots.size() < c.deg) {
            pbt::Reader r = U(k % std::max(1, units)); if (k >= units) r.skip(5 * (k / std::max(1, units))); ++k;
            double e = r.real(-2, 2); LD mag = std::pow((LD)10, (LD)(c.isFloat ? e / 2 : e)) * scale;
            CL z(mag * r.real(-1, 1), mag * r.real(-1, 1));
            int flavour = r.pick(8);   // 0,1: plain; 2: real root; 3: conj pair; 4: zero root; 5..7 mode-dependent repeat
            if (flavour == 4) z = 0;
            if (flavour == 2) z = CL(z.real(), 0);
            int room = c.deg - (int)roots.size();
            if (c.mode == 3 && room >= 2) { if (!c.cplx) z = r.boolean() ? CL(z.real(), 0) : CL(0, z.imag()); roots.push_back(z); roots.push_back(-z); continue; }
            if (!c.cplx) {
                if ((flavour == 3 || flavour == 0) && room >= 2 && z.imag() != 0) { roots.push_back(z); roots.push_back(std::conj(z)); }
                else { z = CL(z.real(), 0); roots.push_back(z); }
            } else roots.push_back(z);
            if (c.mode == 2 && flavour >= 5) {
                int copies = 1 + r.pick(2); int ce = 3 + r.pick(6);      // cluster distance 1e-3 .. 1e-8, or exact multiple
                bool exact = r.boolean();
                for (int m = 0; m < copies && (int)roots.size() < c.deg; ++m) {
                    CL z2 = roots.back() * (exact ? (LD)1 : (LD)1 + std::pow((LD)10, (LD)-ce) * (m + 1));
                    if (!c.cplx && z2.imag() != 0) { if ((int)roots.size() + 2 <= c.deg) { roots.push_back(z2); roots.push_back(std::conj(z2)); } }
                    else roots.push_back(z2);
                }
            }
        }
        roots.resize(c.deg);
        if (!c.cplx) {  // resize may have cut a conjugate pair: make the orphan real
            std::vector<char> used(roots.size(), 0);
            for (size_t i = 0; i < roots.size(); ++i) if (!used[i] && roots[i].imag() != 0) {
                bool m = false;
                for (size_t j = i + 1; j < roots.size(); ++j) if (!used[j] && roots[j] == std::conj(roots[i])) { used[i] = used[j] = 1; m = true; break; }
                if (!m) roots[i] = CL(roots[i].real(), 0);
            }
        }
        c.genRoots = roots;
        for (size_t i = 0; i < roots.size(); ++i) for (size_t j = i + 1; j < roots.size(); ++j) {
            LD d = std::abs(roots[i] - roots[j]), m = std::max(std::abs(roots[i]), std::abs(roots[j]));
            double s = m > 0 ? (double)(d / m) : 0; c.minSep = std::min(c.minSep, s);
        }
        pbt::Reader g2(t[0]); g2.skip(6);
        LD lead = std::pow((LD)10, (LD)g2.real(-2, 2)); if (g2.boolean()) lead = -lead;
        std::vector<CL> p(1, CL(lead, 0));
        for (auto z : roots) { std::vector<CL> q(p.size() + 1, CL(0, 0)); for (size_t i = 0; i < p.size(); ++i) { q[i] += p[i]; q[i + 1] -= p[i] * z; } p = q; }
        if (!c.cplx) for (auto& x : p) x = CL(x.real(), 0);
        c.coef = p;
    }
    for (auto& x : c.coef) x = c.isFloat ? roundTo<float>(x) : roundTo<double>(x);
    if (std::abs(c.coef[0]) == 0) c.coef[0] = CL(1, 0);
    // near-overflow common factor (1 case in 8 of the eligible ones; word 0 = off): the root set does not depend on a common
    // factor, and a power of two changes no mantissa -- exercises the root finders' overflow-protection rescaling.
    // Eligible: double precision, complex coefficients, moderate overall scale (the real-coefficient and large-root paths
    // carry listed findings of their own).
    { pbt::Reader g3(t[0]); g3.skip(8); const int sel = g3.pick(8), extra = g3.pick(480);
      if (sel == 7 && !c.isFloat && c.cplx && c.kind == 2 && std::fabs(scaleExp) <= 2) {   // general degree only: CPOLY has explicit overflow-protection scaling, the closed-form quadratic and cubic do not (they overflow near 1e155)
          LD mx = 0; for (auto& x : c.coef) mx = std::max(mx, std::abs(x));
          if (mx > 0) { int k = (int)std::ceil(std::log2((LD)1e155L / mx)) + extra; while (mx * std::pow((LD)2, (LD)k) > (LD)1e300L) --k;
              if (k > 0) { for (auto& x : c.coef) x = CL(std::ldexp(x.real(), k), std::ldexp(x.imag(), k)); c.hugeBits = k; } } } }
    return c;
}

template <class T>
bool solve(const Case& c, std::vector<CL>& out, std::string& exc) {
    typedef std::complex<T> C;
    try {
        if (c.kind == 0) {
            Vec<2, C> r;
            if (c.cplx) { Vec<3, C> a; for (int i = 0; i < 3; ++i) a[i] = C((T)c.coef[i].real(), (T)c.coef[i].imag()); PolynomialRootFinder::findRoots(a, r); }
            else { Vec<3, T> a; for (int i = 0; i < 3; ++i) a[i] = (T)c.coef[i].real(); PolynomialRootFinder::findRoots(a, r); }
            for (int i = 0; i < 2; ++i) out.push_back(CL(r[i].real(), r[i].imag()));
        } else if (c.kind == 1) {
            Vec<3, C> r;
            if (c.cplx) { Vec<4, C> a; for (int i = 0; i < 4; ++i) a[i] = C((T)c.coef[i].real(), (T)c.coef[i].imag()); PolynomialRootFinder::findRoots(a, r); }
            else { Vec<4, T> a; for (int i = 0; i < 4; ++i) a[i] = (T)c.coef[i].real(); PolynomialRootFinder::findRoots(a, r); }
            for (int i = 0; i < 3; ++i) out.push_back(CL(r[i].real(), r[i].imag()));
        } else {
            Vector_<C> r(c.deg);
            if (c.cplx) { Vector_<C> a(c.deg + 1); for (int i = 0; i <= c.deg; ++i) a[i] = C((T)c.coef[i].real(), (T)c.coef[i].imag()); PolynomialRootFinder::findRoots(a, r); }
            else { Vector_<T> a(c.deg + 1); for (int i = 0; i <= c.deg; ++i) a[i] = (T)c.coef[i].real(); PolynomialRootFinder::findRoots(a, r); }
            for (int i = 0; i < c.deg; ++i) out.push_back(CL(r[i].real(), r[i].imag()));
        }
    } catch (const std::exception& e) { exc = e.what(); return false; }
    return true;
}

std::string show(CL z) { std::ostringstream o; o.precision(17); o << "(" << (double)z.real() << "," << (double)z.imag() << ")"; return o.str(); }

void property(const pbt::Tape& t, pbt::Ctx& ctx) {
    Case c = decode(t);
    const LD eps = c.isFloat ? (LD)1.1920929e-07L : (LD)2.220446049250313e-16L;
    if (ctx.wantDesc) {
        ctx.desc << "kind=" << (c.kind == 0 ? "Vec3" : c.kind == 1 ? "Vec4" : "Vector_") << " " << (c.cplx ? "complex" : "real") << " " << (c.isFloat ? "float" : "double")
                 << " mode=" << c.mode << " deg=" << c.deg << " coef(descending)=";
        for (auto& a : c.coef) ctx.desc << show(a) << " ";
        ctx.desc << "\n";
    }
    {   // domain guard: coefficients must be finite, normal numbers of T with head-room for the
        // solver's own intermediate products (inputs outside are not polynomials the API accepts)
        LD hi = c.isFloat ? 1e18L : 1e150L, lo = c.isFloat ? 1e-18L : 1e-150L;
        if (c.hugeBits) { hi = 1e301L; lo = std::min((LD)1e150L, lo * std::pow((LD)2, (LD)c.hugeBits)); }   // the near-overflow class: same relative range, shifted up
        for (auto& a : c.coef) { LD m = std::abs(a); if (!(m <= hi) || (m != 0 && m < lo)) { ctx.reject("coefficient-range"); return; } }
    }
    std::vector<CL> roots; std::string exc;
    bool ok = c.isFloat ? solve<float>(c, roots, exc) : solve<double>(c, roots, exc);
    static const char* modeName[] = {"raw", "separated", "clustered", "symmetric"};
    ctx.label(std::string(c.kind == 0 ? "quad" : c.kind == 1 ? "cubic" : "general") + (c.cplx ? "/complex" : "/real") + (c.isFloat ? "/float" : "/double"));
    ctx.label(std::string("mode:") + modeName[c.mode]);
    if (c.hugeBits) { ctx.label("coefficients:near-overflow-common-factor"); if (ctx.wantDesc) ctx.desc << "all coefficients multiplied by 2^" << c.hugeBits << "\n"; }
    if (!ok) { ctx.reject("solver-exception"); if (ctx.wantDesc) ctx.desc << "exception: " << exc.substr(0, 200) << "\n"; return; }
    const int n = c.deg;
    if (ctx.wantDesc) { ctx.desc << "roots="; for (auto& r : roots) ctx.desc << show(r) << " "; ctx.desc << "\n"; }
    bool special = c.kind == 0 && (std::abs(c.coef[1]) == 0);
    ctx.nontrivial(n >= 3 || special || c.mode >= 2);
    if (special) ctx.label("quad:b==0");

    // 1. exactly degree-many finite roots
    if (!ctx.check((int)roots.size() == n, "wrong number of roots")) return;
    for (int k = 0; k < n; ++k) if (!std::isfinite((double)roots[k].real()) || !std::isfinite((double)roots[k].imag())) {
        // known finding: Jenkins-Traub gives up after >= 1 root and the API reports the rest as NaN without throwing
        if (std::isnan((double)roots[k].real()) && std::isnan((double)roots[k].imag()) && c.kind != 0 && ctx.known("rootfinder-partial-failure-nan")) { ctx.reject("known:partial-failure-nan"); return; }
        ctx.fail("root " + std::to_string(k) + " is not finite (not all degree-many roots were found): " + show(roots[k])); return; }

    // known finding rpoly-quadit-near-equal-moduli: RPoly::quadit keeps iterating on a quadratic factor whose two
    // REAL roots have nearly equal moduli -- test "||szr|-|lzr|| <= 0.01*max(|lzr|,0.1)" (the 0.1 floor is a local
    // addition) -- and its convergence test looks at p(szr) only, so the pair can be accepted with the other root
    // poorly converged (3 digits). Site predicate (mirrors the code's test with 2x slack, on the returned roots):
    // RPOLY path and two returned real roots a != b with ||a|-|b|| <= 0.02*max(|a|,|b|,0.1).
    bool rpolyPath = !c.cplx && c.kind != 0, excl = false; double Cb = 0;
    if (rpolyPath) {
        bool hit = false;
        for (int i = 0; i < n && !hit; ++i) for (int j = i + 1; j < n; ++j) {
            if (roots[i].imag() != 0 || roots[j].imag() != 0) continue;
            LD a = std::abs(roots[i].real()), b = std::abs(roots[j].real());
            if (std::abs(a - b) <= (LD)0.02 * std::max(std::max(a, b), (LD)0.1)) { hit = true; break; }
        }
        if (hit && ctx.known("rpoly-quadit-near-equal-moduli")) { ctx.label("excluded:rpoly-near-equal-moduli"); excl = true; }
    }
    // known finding jt-deflation-large-root-first: roots are returned in the order found; when Jenkins-Traub finds a
    // large root before much smaller ones, forward deflation by the large root is unstable and the later roots can be
    // garbage (relative residual several %). Site predicate: RPOLY path and a returned root whose modulus exceeds 10x
    // the modulus of a root returned after it.
    if (rpolyPath && !excl) {
        bool hit = false; LD big = 0;
        for (int i = 0; i < n && !hit; ++i) { LD m = std::abs(roots[i]); if (big > 10 * m) hit = true; big = std::max(big, m); }
        if (hit && ctx.known("jt-deflation-large-root-first")) { ctx.label("excluded:large-root-first"); excl = true; }
    }
    // known finding cpoly-deflation-large-roots: CPOLY (complex coefficients, degree >= 3) loses accuracy in the
    // roots found after the first in proportion to the root modulus when the roots are >> 1 (residual ratio
    // ~ 1e1 x modulus: 1e7 at |z| ~ 1e6, i.e. garbage in float). Site predicate (on the INPUT): CPOLY path and
    // root-modulus bound B = max_i (|a_i|/|a_0|)^(1/i) > 10.
    if (c.cplx && c.kind != 0) {
        LD B = 0; for (int i = 1; i <= n; ++i) B = std::max(B, std::pow(std::abs(c.coef[i]) / std::abs(c.coef[0]), (LD)1 / i));
        if (B > 10 && ctx.known("cpoly-deflation-large-roots")) { ctx.label("excluded:cpoly-large-roots"); excl = true; }
    }
    {
    // 2. backward error of every root
    // class constants (DESIGN C30 calibration): complex 1e6 (observed max 3e3 for root bound <= 10; the
    // large-root degradation of CPOLY is the known finding above), real separated/raw 1e9, real clustered 1e12
    // "clustered" is judged on the returned roots (any two closer than 10% relative), so that raw-coefficient
    // and "separated" cases that happen to contain a close pair get the clustered constant as well
    bool closePair = c.mode == 2;
    for (int i = 0; i < n && !closePair; ++i) for (int j = i + 1; j < n; ++j) {
        LD d = std::abs(roots[i] - roots[j]), m = std::max(std::abs(roots[i]), std::abs(roots[j]));
        if (d <= (LD)0.1 * m) { closePair = true; break; }
    }
    if (closePair) ctx.label("class:close-pair");
    // float + general degree >= 4: successive Jenkins-Traub deflation in single precision leaves residuals of
    // several per cent (thorough runs: ratio up to 8e5 ~ relative residual 1), indistinguishable from a wrong root
    // by any constant (limit stated in DESIGN C30); only the structural clauses (count, finiteness, conjugate
    // pairing) are judged for that class. float quadratics, cubics and double of every degree are fully judged.
    if (c.isFloat && c.kind == 2 && n >= 4) { ctx.label("float-general-degree>=4:structural-only"); excl = true; }
    if (!excl) {
    Cb = c.cplx ? 1e6 : (closePair ? 1e12 : 1e9);
    if (c.isFloat) Cb = std::min(Cb, 1e5) ;   // float: eps is 1e-7, a wrong root has ratio ~1e7
    static const bool calib = getenv("C30_CALIB") != nullptr;
    if (calib) Cb = 1e300;
    double worst = 0;
    for (int k = 0; k < n; ++k) {
        CL z = roots[k], p = 0; LD bound = 0, az = std::abs(z);
        for (int i = 0; i <= n; ++i) { p = p * z + c.coef[i]; bound = bound * az + std::abs(c.coef[i]); }
        LD rel = std::abs(p) / (bound * eps * n + (LD)1e-4000L);
        if (!std::isfinite((double)rel) && bound == 0) rel = 0;
        worst = std::max(worst, (double)rel);
        if ((double)rel > Cb) { ctx.fail("backward error ratio " + pbt::str((double)rel) + " > " + pbt::str(Cb) + " for root " + show(z) + ": |p(r)|=" + pbt::str((double)std::abs(p)) + " scale=" + pbt::str((double)bound)); return; }
    }
    ctx.label(worst < 1e2 ? "berr<1e2" : worst < 1e4 ? "berr<1e4" : worst < 1e6 ? "berr<1e6" : worst < 1e9 ? "berr<1e9" : "berr>=1e9");
    if (calib) { char b[128]; snprintf(b, sizeof b, "calib:%s/%s/%s/%s:1e%02d", c.kind == 0 ? "quad" : c.kind == 1 ? "cubic" : "general", c.cplx ? "cplx" : "real", c.isFloat ? "f" : "d", modeName[c.mode], (int)std::floor(std::log10(worst + 1e-30)) < 0 ? 0 : (int)std::floor(std::log10(worst + 1e-30))); ctx.label(b); }

    // 3. Vieta: a0 * prod (x - r_k) reproduces the coefficients, scaled by |a0| e_i(|r|)
    {
        std::vector<CL> p(1, c.coef[0]); std::vector<LD> s(1, std::abs(c.coef[0]));
        for (auto z : roots) {
            std::vector<CL> q(p.size() + 1, CL(0, 0)); std::vector<LD> qs(p.size() + 1, 0);
            for (size_t i = 0; i < p.size(); ++i) { q[i] += p[i]; q[i + 1] -= p[i] * z; qs[i] += s[i]; qs[i + 1] += s[i] * std::abs(z); }
            p = q; s = qs;
        }
        double Cv = Cb * 10;
        for (int i = 0; i <= n; ++i) {
            LD d = std::abs(p[i] - c.coef[i]), sc = s[i] * eps * n;
            if (d > Cv * sc && d > 0) { ctx.fail("Vieta: coefficient " + std::to_string(i) + " rebuilt from roots = " + show(p[i]) + " vs given " + show(c.coef[i]) + ", ratio " + pbt::str((double)(d / (sc + (LD)1e-4000L)))); return; }
        }
    }

    } }
    // 4. conjugate pairs for real coefficients
    if (!c.cplx) {
        std::vector<char> used(n, 0);
        for (int i = 0; i < n; ++i) {
            if (used[i]) continue;
            LD mag = std::abs(roots[i]); LD tol = 1e3 * eps * mag + (LD)1e-300L;
            if (std::abs(roots[i].imag()) <= tol) { used[i] = 1; continue; }
            int best = -1; LD bd = 0;
            for (int j = 0; j < n; ++j) if (j != i && !used[j]) { LD d = std::abs(roots[j] - std::conj(roots[i])); if (best < 0 || d < bd) { best = j; bd = d; } }
            if (best < 0 || bd > tol) { ctx.fail("real coefficients but non-real root " + show(roots[i]) + " has no conjugate partner (nearest distance " + pbt::str((double)bd) + ")"); return; }
            used[i] = used[best] = 1;
        }
    }

    // 5. forward error for well separated generated roots
    if (!excl && c.mode == 1 && c.minSep >= 1e-2 && !c.genRoots.empty()) {
        std::vector<char> used(n, 0); bool skip = false;
        std::vector<LD> tolv(n);
        for (int g = 0; g < n && !skip; ++g) {
            CL z = c.genRoots[g]; CL dp = 0, p = 0; LD bound = 0, az = std::abs(z);
            for (int i = 0; i <= n; ++i) { dp = dp * z + p; p = p * z + c.coef[i]; bound = bound * az + std::abs(c.coef[i]); }
            LD adp = std::abs(dp); if (adp == 0) { skip = true; break; }
            LD tol = (LD)Cb * 10 * eps * n * bound / adp;
            // separation from the other generated roots must dominate the tolerance, else ambiguous
            LD sep = 1e300L; for (int h = 0; h < n; ++h) if (h != g) sep = std::min(sep, std::abs(c.genRoots[h] - z));
            if (tol > sep / 4) { skip = true; break; }
            tolv[g] = tol;
        }
        if (!skip) {
            ctx.label("forward-checked");
            for (int g = 0; g < n; ++g) {
                int best = -1; LD bd = 0;
                for (int j = 0; j < n; ++j) if (!used[j]) { LD d = std::abs(roots[j] - c.genRoots[g]); if (best < 0 || d < bd) { best = j; bd = d; } }
                if (best < 0 || bd > tolv[g]) { ctx.fail("generated root " + show(c.genRoots[g]) + " not among the returned roots (nearest unused at distance " + pbt::str((double)bd) + ", tolerance " + pbt::str((double)tolv[g]) + ")"); return; }
                used[best] = 1;
            }
        } else ctx.label("forward-skipped-illconditioned");
    }
}

pbt::Config config() {
    pbt::Config c; c.prop = "C30"; c.K = 10; c.minUnits = 2;
    c.quick = {100000, 300000, 22, 30}; c.thorough = {400000, 1500000, 22, 300};
    c.rule = "rapidcheck tape -> polynomial: kind {Vec<3>,Vec<4>,Vector_} x {real,complex} x {float,double} x mode {raw coefficients, separated roots, multiple/clustered roots, symmetric +-z pairs}, degree 2..20 (number of tape units), scale 1e-6..1e6. Non-trivial: degree >= 3, or quadratic with zero linear coefficient, or multiple/clustered/symmetric roots; distinct by tape hash.";
    c.assumptions = {"long double evaluation of p(r) is exact enough to judge double/float residuals", "rpoly/cpoly exceptions ('failure to find any roots') are clean rejections", "class constants C from DESIGN C30 calibration (probe J)"};
    c.directed.push_back({"cpoly-gives-up-nan-roots", "rootfinder-partial-failure-nan", [](pbt::Ctx& ctx) {
        // x * (x^8 - 2.01e-12 x^6 + 1.02e-24 x^4 - 1.0001e-38 x^2 + 1e-56): CPOLY finds the zero root, then fails
        Vector_<std::complex<double> > a(10, std::complex<double>(0, 0)), r(9);
        a[0] = 1; a[2] = -2.0100009999999999e-12; a[4] = 1.02000201e-24; a[6] = -1.0001020000000001e-38; a[8] = 1.0000000000000002e-56;
        PolynomialRootFinder::findRoots(a, r);
        int nan = 0; for (int i = 0; i < 9; ++i) if (std::isnan(r[i].real())) nan++;
        ctx.desc << "degree 9 complex-coefficient polynomial with roots 0, +-1e-6(x2), ...; NaN roots returned: " << nan << "\n";
        ctx.check(nan == 0, std::to_string(nan) + " of 9 roots returned as NaN without an exception");
    }});
    c.directed.push_back({"cpoly-float-large-roots-garbage", "cpoly-deflation-large-roots", [](pbt::Ctx& ctx) {
        // x^3 + (19829172+179076320i) x : roots 0, +-(8953.8-9999.99i); float CPOLY returns +-(108794.75-98976.6i)
        typedef std::complex<float> C; Vec<4, C> a(C(1, 0), C(0, 0), C(19829172.f, 179076320.f), C(0, 0)); Vec<3, C> r;
        PolynomialRootFinder::findRoots(a, r);
        double worst = 0;
        for (int k = 0; k < 3; ++k) { CL z(r[k].real(), r[k].imag()), p = 0; LD b = 0; for (int i = 0; i < 4; ++i) { CL ai(a[i].real(), a[i].imag()); p = p * z + ai; b = b * std::abs(z) + std::abs(ai); }
            if (b > 0) worst = std::max(worst, (double)(std::abs(p) / b)); }
        ctx.desc << "float complex cubic x^3+(19829172+179076320i)x: worst |p(r)|/sum|a_i||r|^i = " << worst << "\n";
        ctx.check(worst < 1e-2, "returned roots have relative residual " + pbt::str(worst) + " (garbage) without an exception");
    }});
    c.requiredLabels = {"coefficients:near-overflow-common-factor", "quad/real/double", "cubic/real/double", "general/real/double", "general/complex/double", "mode:clustered", "quad:b==0", "forward-checked"};
    return c;
}
} // namespace

PBT_MAIN(config(), property)
