// C28 -- Angular-velocity rate helpers are exact derivatives (DESIGN.md section 5, C28).
// Units: body-XYZ Euler angles (|cos q1| >= 0.1, principal and non-principal chart), body-ZYX (321) angles, or an
// arbitrary quaternion (norm 0.3..3), each with random angular velocity w and angular acceleration b, float/double.
// Oracle (long double, gen/rotref.h):
//  (G)  geometric reference: NInv's columns are the instantaneous rotation axes of the sequence; N = its inverse;
//  (FD) qdot = N w is the 6th-order finite-difference time derivative of the coordinates of R(t) = exp([W(t)]x) R0
//       (parent frame) or R0 exp([W(t)]x) (body frame), coordinates recovered from R(t) by a Newton solve in the
//       chart of q; NDot = d/dt N_ref(q(t)); qdotdot = d/dt [N_ref(q(t)) w(t)] with w(t) = w + b t
//       (third-order Magnus expansion for W(t));
//  (D)  NInv N = I (Euler), = |q|^2 I (quaternion, documented), all overloads (cos/sin-precomputed forms, multiplyBy*)
//       agree with the matrices.
#include "pbt.h"
#include "rotref.h"
#include "SimTKcommon.h"
using namespace SimTK;
using rr::LD; using rr::M3; using rr::V3;

namespace {

static const bool CALIB = getenv("C28_CALIB") != nullptr;
struct CalibTable { std::map<std::string, double> mx; ~CalibTable() { if (CALIB) for (auto& kv : mx) fprintf(stderr, "CALIB %-52s max err/tol = %.3g\n", kv.first.c_str(), kv.second); } };
CalibTable& calib() { static CalibTable t; return t; }
template <class P> struct Prec;
template <> struct Prec<double> { static constexpr LD eps = 2.220446049250313e-16L; static const char* name() { return "double"; } };
template <> struct Prec<float>  { static constexpr LD eps = 1.1920928955078125e-07L; static const char* name() { return "float"; } };

// MARGIN: all stated tolerances are multiplied by 4 (calibration: worst ratio 0.125 before, < 0.04 after)
static const LD MARGIN = 4;
template <class P> bool judge(pbt::Ctx& ctx, const char* id, LD err, LD tol, const std::string& detail = "") {
    tol *= MARGIN;
    if (CALIB) { std::string k = std::string(id) + "/" + Prec<P>::name(); double r = (double)(err / tol); if (!(r <= calib().mx[k])) calib().mx[k] = r; if (err <= tol * 1e6L) return true; }
    if (!(err <= tol)) { ctx.fail(std::string(id) + " [" + Prec<P>::name() + "]: error " + pbt::str((double)err) + " > tol " + pbt::str((double)tol) + (detail.empty() ? "" : " -- " + detail)); return false; }
    return true;
}
template <class P, int M, int N> LD matErr(const Mat<M, N, P>& a, const LD* ref /*row major M*N*/) { LD e = 0; for (int i = 0; i < M; ++i) for (int j = 0; j < N; ++j) { LD d = std::fabs((LD)a(i, j) - ref[i * N + j]); if (!(d <= e)) e = d; } return e; }
template <class P> LD m3Err(const Mat<3, 3, P>& a, const M3& r) { return matErr<P, 3, 3>(a, &r.m[0][0]); }
template <class P> LD v3Err(const Vec<3, P>& a, V3 r) { LD e = 0; for (int i = 0; i < 3; ++i) { LD d = std::fabs((LD)a[i] - r[i]); if (!(d <= e)) e = d; } return e; }
template <class P> Vec<3, P> toVec(V3 v) { return Vec<3, P>((P)v[0], (P)v[1], (P)v[2]); }
template <class P> V3 toV3(const Vec<3, P>& v) { return V3((LD)v[0], (LD)v[1], (LD)v[2]); }

V3 genDir(pbt::Reader& g) { double o[3]; g.unit3(o); return rr::unit(V3(o[0], o[1], o[2])); }
bool axisAligned(V3 v) { int nz = 0; for (int i = 0; i < 3; ++i) if (v[i] != 0) nz++; return nz <= 1; }

// rotation vector of the motion with angular velocity w + b t, to O(t^5) (Magnus): parent frame sign -1, body frame +1
V3 magnus(V3 w, V3 b, LD t, int sgn) { return t * w + (t * t / 2) * b + ((LD)sgn * t * t * t / 12) * rr::cross(w, b); }

// 6th-order central difference of a vector-valued function: Richardson of two 5-point stencils (h, h/2)
template <int N, class F> void fd6(F f, LD h, LD out[N]) {
    LD a[N], bb[N], v1[N], v2[N], v3[N], v4[N];
    auto five = [&](LD hh, LD* o) { f(hh, v1); f(-hh, v2); f(2 * hh, v3); f(-2 * hh, v4); for (int i = 0; i < N; ++i) o[i] = (8 * (v1[i] - v2[i]) - (v3[i] - v4[i])) / (12 * hh); };
    five(h, a); five(h / 2, bb);
    for (int i = 0; i < N; ++i) out[i] = (16 * bb[i] - a[i]) / 15;
}

// ------------------------------------------------------------------ Euler sequences (123 and 321)
template <class P> void kindEuler(pbt::Reader& g, pbt::Ctx& ctx, bool is321) {
    const LD eps = Prec<P>::eps;
    const int ax123[3] = {0, 1, 2}, ax321[3] = {2, 1, 0}; const int* ax = is321 ? ax321 : ax123;
    // middle angle with |cos| >= 0.1: q1 = asin(0.9949 u), optionally reflected into the non-principal chart
    P qf[3]; qf[0] = (P)g.angle(); qf[2] = (P)g.angle();
    { uint32_t w = g.w(); LD u; int mode = w % 4; LD x = (LD)(w >> 2) / 1073741824.0L;
      if (mode == 0) u = (2 * x - 1); else if (mode == 1) u = ((w >> 2) & 1 ? 1 : -1) * (1 - std::pow((LD)10, -(LD)(1 + (w >> 3) % 6))); else if (mode == 2) u = (2 * x - 1) * 1e-3L; else u = 2 * x - 1;
      LD q1 = std::asin(0.9949L * u); if (g.chance(1, 4)) q1 = (q1 >= 0 ? rr::PI : -rr::PI) - q1;
      if (w == 0) q1 = 0; qf[1] = (P)q1; }
    LD q[3] = {(LD)qf[0], (LD)qf[1], (LD)qf[2]}; LD c1 = std::cos(q[1]), cond = 1 / std::fabs(c1);
    if (std::fabs(c1) < 0.0999L) { ctx.reject("cos(q1)<0.1 after rounding"); return; }
    V3 wd = genDir(g), bd = genDir(g); LD wm = (LD)g.logreal(1e-2, 1e2), bm = (LD)g.logreal(1e-2, 1e2); if (g.chance(1, 10)) bm = 0;
    Vec<3, P> wP = toVec<P>(wm * wd), bP = toVec<P>(bm * bd); V3 w = toV3(wP), b = toV3(bP); LD wn = rr::norm(w), bn = rr::norm(b);
    if (ctx.wantDesc) ctx.desc << (is321 ? "body-ZYX" : "body-XYZ") << " q=(" << pbt::str((double)q[0]) << "," << pbt::str((double)q[1]) << "," << pbt::str((double)q[2]) << ") w=" << rr::show(w) << " b=" << rr::show(b) << "\n";
    ctx.label(is321 ? "euler321" : "euler123"); ctx.label(std::fabs(q[1]) > rr::PI / 2 ? "chart:non-principal" : "chart:principal");
    ctx.label(cond > 5 ? "cond:1/cos>5" : cond > 2 ? "cond:1/cos>2" : "cond:mild");
    ctx.nontrivial(!axisAligned(w) && q[1] != 0);

    rr::EulerRef r0 = rr::eulerRef(ax, q);
    Vec<3, P> qP(qf[0], qf[1], qf[2]);
    // reference derivatives by finite differences, body frame (frame=0) and parent frame (frame=1)
    const LD h = 2e-3L / ((1 + wn + std::sqrt(bn)) * cond);
    LD qdFD[2][3], NdFD[2][9], qddFD[2][3]; LD magRefCheck = 0;
    for (int frame = 0; frame < 2; ++frame) {
        auto Rt = [&](LD t, V3 bb) { V3 W = magnus(w, bb, t, frame == 0 ? +1 : -1); return frame == 0 ? r0.R * rr::expMap(W) : rr::expMap(W) * r0.R; };
        auto qAt = [&](LD t, V3 bb, LD* o) { rr::eulerSolve(ax, Rt(t, bb), q, o); };
        fd6<3>([&](LD t, LD* o) { qAt(t, V3(), o); }, h, qdFD[frame]);
        fd6<9>([&](LD t, LD* o) { LD qq[3]; qAt(t, V3(), qq); rr::EulerRef r = rr::eulerRef(ax, qq); const M3& N = frame == 0 ? r.NB : r.NP; for (int i = 0; i < 3; ++i) for (int j = 0; j < 3; ++j) o[3 * i + j] = N[i][j]; }, h, NdFD[frame]);
        fd6<3>([&](LD t, LD* o) { LD qq[3]; qAt(t, b, qq); rr::EulerRef r = rr::eulerRef(ax, qq); V3 v = (frame == 0 ? r.NB : r.NP) * (w + t * b); for (int i = 0; i < 3; ++i) o[i] = v[i]; }, h, qddFD[frame]);
        // self-check of the reference: product rule qdd = N b + NDot w
        M3 Nd; for (int i = 0; i < 3; ++i) for (int j = 0; j < 3; ++j) Nd[i][j] = NdFD[frame][3 * i + j];
        V3 pr = (frame == 0 ? r0.NB : r0.NP) * b + Nd * w;
        for (int i = 0; i < 3; ++i) magRefCheck = std::max(magRefCheck, std::fabs(pr[i] - qddFD[frame][i]) / (1 + std::fabs(pr[i])));
    }
    if (!ctx.check(magRefCheck < 1e-8L, "internal: reference finite differences inconsistent with the product rule (" + pbt::str((double)magRefCheck) + ")")) return;
    const LD fdRel = 2.5e-12L;    // accuracy demanded of the finite-difference references (x MARGIN = 1e-11; observed 2e-13)

    if (!is321) {
        Vec<3, P> cq(std::cos(qP[0]), std::cos(qP[1]), std::cos(qP[2])), sq(std::sin(qP[0]), std::sin(qP[1]), std::sin(qP[2]));
        Vec<2, P> cxy(cq[0], cq[1]), sxy(sq[0], sq[1]); P ooc = 1 / cq[1];
        Mat<3, 3, P> NB = Rotation_<P>::calcNForBodyXYZInBodyFrame(qP), NP = Rotation_<P>::calcNForBodyXYZInParentFrame(qP);
        Mat<3, 3, P> NBi = Rotation_<P>::calcNInvForBodyXYZInBodyFrame(qP), NPi = Rotation_<P>::calcNInvForBodyXYZInParentFrame(qP);
        // (G) geometric reference
        if (!judge<P>(ctx, "G:N body", m3Err<P>(NB, r0.NB), 16 * eps * cond * cond, "q1=" + pbt::str((double)q[1]))) return;
        if (!judge<P>(ctx, "G:N parent", m3Err<P>(NP, r0.NP), 16 * eps * cond * cond)) return;
        if (!judge<P>(ctx, "G:NInv body", m3Err<P>(NBi, r0.NInvB), 16 * eps)) return;
        if (!judge<P>(ctx, "G:NInv parent", m3Err<P>(NPi, r0.NInvP), 16 * eps)) return;
        // (D) inverses, both orders
        M3 I = rr::ident();
        if (!judge<P>(ctx, "D:NInv*N=I body", std::max(m3Err<P>(Mat<3, 3, P>(NBi * NB), I), m3Err<P>(Mat<3, 3, P>(NB * NBi), I)), 16 * eps * cond * cond)) return;
        if (!judge<P>(ctx, "D:NInv*N=I parent", std::max(m3Err<P>(Mat<3, 3, P>(NPi * NP), I), m3Err<P>(Mat<3, 3, P>(NP * NPi), I)), 16 * eps * cond * cond)) return;
        // precomputed cos/sin overloads equal the angle overloads
        if (!judge<P>(ctx, "D:cs-overloads N/NInv", std::max(std::max(m3Err<P>(Rotation_<P>::calcNForBodyXYZInBodyFrame(cq, sq), r0.NB), m3Err<P>(Rotation_<P>::calcNForBodyXYZInParentFrame(cq, sq), r0.NP)) / (cond * cond),
                       std::max(m3Err<P>(Rotation_<P>::calcNInvForBodyXYZInBodyFrame(cq, sq), r0.NInvB), m3Err<P>(Rotation_<P>::calcNInvForBodyXYZInParentFrame(cq, sq), r0.NInvP))), 16 * eps)) return;
        // (FD) qdot = N w : all first-derivative helpers
        V3 qdB(qdFD[0][0], qdFD[0][1], qdFD[0][2]), qdP(qdFD[1][0], qdFD[1][1], qdFD[1][2]);
        LD s1 = wn * cond, t1 = (16 * eps * cond + fdRel) * (s1 + 1e-30L);
        Vec<3, P> qdB1 = Rotation_<P>::convertAngVelInBodyFrameToBodyXYZDot(qP, wP), qdB2 = Rotation_<P>::convertAngVelInBodyFrameToBodyXYZDot(cq, sq, wP), qdB3 = NB * wP;
        Vec<3, P> qdP1 = Rotation_<P>::convertAngVelInParentToBodyXYZDot(cxy, sxy, ooc, wP), qdP2 = Rotation_<P>::multiplyByBodyXYZ_N_P(cxy, sxy, ooc, wP), qdP3 = NP * wP;
        if (!judge<P>(ctx, "FD:qdot body (convertAngVelInBodyFrameToBodyXYZDot)", std::max(std::max(v3Err<P>(qdB1, qdB), v3Err<P>(qdB2, qdB)), v3Err<P>(qdB3, qdB)), t1, "fd=" + rr::show(qdB) + " lib=" + rr::show(toV3(qdB1)))) return;
        if (!judge<P>(ctx, "FD:qdot parent (convertAngVelInParentToBodyXYZDot)", std::max(std::max(v3Err<P>(qdP1, qdP), v3Err<P>(qdP2, qdP)), v3Err<P>(qdP3, qdP)), t1, "fd=" + rr::show(qdP) + " lib=" + rr::show(toV3(qdP1)))) return;
        // inverse maps return the angular velocity
        Vec<3, P> qdBp = toVec<P>(qdB), qdPp = toVec<P>(qdP); LD t1i = (16 * eps * cond + fdRel) * (wn * cond + 1e-30L);
        if (!judge<P>(ctx, "FD:w body from qdot", std::max(v3Err<P>(Rotation_<P>::convertBodyXYZDotToAngVelInBodyFrame(qP, qdBp), w), v3Err<P>(Rotation_<P>::convertBodyXYZDotToAngVelInBodyFrame(cq, sq, qdBp), w)), t1i)) return;
        if (!judge<P>(ctx, "FD:w parent from qdot", v3Err<P>(Rotation_<P>::multiplyByBodyXYZ_NInv_P(cxy, sxy, qdPp), w), t1i)) return;
        // transposed multiply helpers
        Vec<3, P> xP = toVec<P>((LD)g.logreal(1e-2, 1e2) * genDir(g)); V3 x = toV3(xP); LD xn = rr::norm(x);
        if (!judge<P>(ctx, "G:multiplyByBodyXYZ_NT_P", v3Err<P>(Rotation_<P>::multiplyByBodyXYZ_NT_P(cxy, sxy, ooc, xP), rr::tr(r0.NP) * x), 16 * eps * cond * cond * xn)) return;
        if (!judge<P>(ctx, "G:multiplyByBodyXYZ_NInvT_P", v3Err<P>(Rotation_<P>::multiplyByBodyXYZ_NInvT_P(cxy, sxy, xP), rr::tr(r0.NInvP) * x), 16 * eps * xn)) return;
        // (FD) NDot, evaluated at the library's own qdot
        M3 NdB, NdP; for (int i = 0; i < 3; ++i) for (int j = 0; j < 3; ++j) { NdB[i][j] = NdFD[0][3 * i + j]; NdP[i][j] = NdFD[1][3 * i + j]; }
        LD s2 = wn * cond * cond * cond, t2 = (32 * eps * cond + fdRel) * (s2 + 1e-30L);
        Mat<3, 3, P> NdB1 = Rotation_<P>::calcNDotForBodyXYZInBodyFrame(qP, qdB1), NdB2 = Rotation_<P>::calcNDotForBodyXYZInBodyFrame(cq, sq, qdB1);
        Mat<3, 3, P> NdP1 = Rotation_<P>::calcNDotForBodyXYZInParentFrame(qP, qdP1), NdP2 = Rotation_<P>::calcNDotForBodyXYZInParentFrame(cxy, sxy, ooc, qdP1);
        if (!judge<P>(ctx, "FD:NDot body", std::max(m3Err<P>(NdB1, NdB), m3Err<P>(NdB2, NdB)), t2, "q1=" + pbt::str((double)q[1]) + " fd=" + rr::show(NdB))) return;
        if (!judge<P>(ctx, "FD:NDot parent", std::max(m3Err<P>(NdP1, NdP), m3Err<P>(NdP2, NdP)), t2, "q1=" + pbt::str((double)q[1]) + " fd=" + rr::show(NdP))) return;
        // (FD) second derivatives
        V3 qddB(qddFD[0][0], qddFD[0][1], qddFD[0][2]), qddP(qddFD[1][0], qddFD[1][1], qddFD[1][2]);
        LD s3 = bn * cond + wn * wn * cond * cond * cond, t3 = (32 * eps * cond + fdRel) * (s3 + 1e-30L);
        if (!judge<P>(ctx, "FD:qdotdot body (convertAngVelDotInBodyFrameToBodyXYZDotDot)", std::max(v3Err<P>(Rotation_<P>::convertAngVelDotInBodyFrameToBodyXYZDotDot(qP, wP, bP), qddB), v3Err<P>(Rotation_<P>::convertAngVelDotInBodyFrameToBodyXYZDotDot(cq, sq, wP, bP), qddB)), t3, "fd=" + rr::show(qddB))) return;
        if (!judge<P>(ctx, "FD:qdotdot parent (convertAngAccInParentToBodyXYZDotDot)", v3Err<P>(Rotation_<P>::convertAngAccInParentToBodyXYZDotDot(cxy, sxy, ooc, qdP1, bP), qddP), t3, "fd=" + rr::show(qddP))) return;
    } else {
        // body-fixed 3-2-1 helpers (angular velocity expressed in the body frame)
        V3 qdB(qdFD[0][0], qdFD[0][1], qdFD[0][2]), qddB(qddFD[0][0], qddFD[0][1], qddFD[0][2]);
        LD s1 = wn * cond, t1 = (16 * eps * cond + fdRel) * (s1 + 1e-30L);
        Vec<3, P> qd1 = Rotation_<P>::convertAngVelToBodyFixed321Dot(qP, wP);
        if (!judge<P>(ctx, "G:321 qdot = N_ref w", v3Err<P>(qd1, r0.NB * w), 16 * eps * cond * s1)) return;
        if (!judge<P>(ctx, "FD:321 qdot (convertAngVelToBodyFixed321Dot)", v3Err<P>(qd1, qdB), t1, "fd=" + rr::show(qdB) + " lib=" + rr::show(toV3(qd1)))) return;
        if (!judge<P>(ctx, "FD:321 w from qdot (convertBodyFixed321DotToAngVel)", v3Err<P>(Rotation_<P>::convertBodyFixed321DotToAngVel(qP, toVec<P>(qdB)), w), t1)) return;
        LD s3 = bn * cond + wn * wn * cond * cond * cond, t3 = (32 * eps * cond + fdRel) * (s3 + 1e-30L);
        if (!judge<P>(ctx, "FD:321 qdotdot (convertAngVelDotToBodyFixed321DotDot)", v3Err<P>(Rotation_<P>::convertAngVelDotToBodyFixed321DotDot(qP, wP, bP), qddB), t3, "fd=" + rr::show(qddB))) return;
    }
}

// ------------------------------------------------------------------ quaternions (possibly unnormalised)
template <class P> void kindQuat(pbt::Reader& g, pbt::Ctx& ctx) {
    const LD eps = Prec<P>::eps;
    LD qd[4]; int mode = g.pick(4);
    for (int i = 0; i < 4; ++i) qd[i] = 2 * (LD)g.unit() - 1;
    if (mode == 1) { int k = g.pick(4); for (int i = 0; i < 4; ++i) if (i != k) qd[i] *= 1e-3L; }       // nearly pure component
    if (mode == 2) { qd[0] *= 1e-4L; }                                                                  // near 180 degrees
    LD n0 = std::sqrt(qd[0]*qd[0] + qd[1]*qd[1] + qd[2]*qd[2] + qd[3]*qd[3]); if (n0 < 1e-3L) { qd[0] = 1; qd[1] = qd[2] = qd[3] = 0; n0 = 1; }
    LD nrm = g.chance(1, 3) ? 1 : (LD)g.uniform(0.3, 3.0);
    Vec<4, P> qP; for (int i = 0; i < 4; ++i) qP[i] = (P)(qd[i] / n0 * nrm);
    LD q[4], n2 = 0; for (int i = 0; i < 4; ++i) { q[i] = (LD)qP[i]; n2 += q[i] * q[i]; } LD qn = std::sqrt(n2);
    V3 wd = genDir(g), bd = genDir(g); LD wm = (LD)g.logreal(1e-2, 1e2), bm = (LD)g.logreal(1e-2, 1e2); if (g.chance(1, 10)) bm = 0;
    Vec<3, P> wP = toVec<P>(wm * wd), bP = toVec<P>(bm * bd); V3 w = toV3(wP), b = toV3(bP); LD wn = rr::norm(w), bn = rr::norm(b);
    if (ctx.wantDesc) ctx.desc << "quaternion q=(" << pbt::str((double)q[0]) << "," << pbt::str((double)q[1]) << "," << pbt::str((double)q[2]) << "," << pbt::str((double)q[3]) << ") |q|=" << pbt::str((double)qn) << " w=" << rr::show(w) << " b=" << rr::show(b) << "\n";
    ctx.label("quaternion"); ctx.label(std::fabs(qn - 1) < 1e-6L ? "quat:unit" : "quat:unnormalised"); ctx.nontrivial(!axisAligned(w));

    // reference motion: q(t) = dq(W(t)) (x) q0, parent-frame angular velocity; |q(t)| = |q0|
    auto qAt = [&](LD t, V3 bb, LD* o) { V3 W = magnus(w, bb, t, -1); LD th = rr::norm(W) / 2; LD dq[4]; dq[0] = std::cos(th); LD sc = th < 1e-8L ? 0.5L * (1 - th * th / 6) : std::sin(th) / (2 * th); dq[1] = sc * W[0]; dq[2] = sc * W[1]; dq[3] = sc * W[2]; rr::quatMul(dq, q, o); };
    // N_ref(q): column k = 1/2 (0,e_k) (x) q
    auto Nref = [&](const LD* qq, LD* o /*4x3 row major*/) { for (int k = 0; k < 3; ++k) { LD e[4] = {0, 0, 0, 0}; e[k + 1] = 0.5L; LD c[4]; rr::quatMul(e, qq, c); for (int i = 0; i < 4; ++i) o[3 * i + k] = c[i]; } };
    // self-validation of the reference motion: R(q(t)) = exp(W) R(q0)
    { LD t = 0.37L / (1 + wn), qt[4]; qAt(t, b, qt); if (!ctx.check(rr::maxAbsDiff(rr::fromQuat(qt), rr::expMap(magnus(w, b, t, -1)) * rr::fromQuat(q)) < 1e-15L, "internal: reference quaternion motion does not follow exp(W) R0")) return; }
    const LD h = 2e-3L / (1 + wn + std::sqrt(bn)), fdRel = 2.5e-12L;
    LD qdFD[4], NdFD[12], qddFD[4], N0[12];
    fd6<4>([&](LD t, LD* o) { qAt(t, V3(), o); }, h, qdFD);
    fd6<12>([&](LD t, LD* o) { LD qq[4]; qAt(t, V3(), qq); Nref(qq, o); }, h, NdFD);
    fd6<4>([&](LD t, LD* o) { LD qq[4], N[12]; qAt(t, b, qq); Nref(qq, N); V3 wt = w + t * b; for (int i = 0; i < 4; ++i) o[i] = N[3 * i] * wt[0] + N[3 * i + 1] * wt[1] + N[3 * i + 2] * wt[2]; }, h, qddFD);
    Nref(q, N0);

    Mat<4, 3, P> N = Rotation_<P>::calcUnnormalizedNForQuaternion(qP); Mat<3, 4, P> Ni = Rotation_<P>::calcUnnormalizedNInvForQuaternion(qP);
    if (!judge<P>(ctx, "G:quaternion N", matErr<P, 4, 3>(N, N0), 4 * eps * qn)) return;
    // documented: NInv*N = |q|^2 I
    Mat<3, 3, P> NiN = Ni * N; M3 want = n2 * rr::ident();
    if (!judge<P>(ctx, "D:NInv*N=|q|^2 I", m3Err<P>(NiN, want), 16 * eps * n2, "|q|^2=" + pbt::str((double)n2))) return;
    Vec<4, P> qdot = Rotation_<P>::convertAngVelToQuaternionDot(qP, wP);
    LD e1 = 0, e1n = 0; for (int i = 0; i < 4; ++i) { e1 = std::max(e1, std::fabs((LD)qdot[i] - qdFD[i])); e1n = std::max(e1n, std::fabs((LD)(N * wP)[i] - qdFD[i])); }
    if (!judge<P>(ctx, "FD:quaternion qdot (convertAngVelToQuaternionDot)", std::max(e1, e1n), (8 * eps + fdRel) * (qn * wn + 1e-30L))) return;
    // qdot is tangent to the sphere |q| = const
    LD dotq = 0; for (int i = 0; i < 4; ++i) dotq += (LD)qdot[i] * q[i];
    if (!judge<P>(ctx, "D:q.qdot=0", std::fabs(dotq), 16 * eps * qn * qn * wn + 1e-300L)) return;
    Vec<4, P> qdFDp; for (int i = 0; i < 4; ++i) qdFDp[i] = (P)qdFD[i];
    // documented scaling: NInv*qdot = |q|^2 w
    if (!judge<P>(ctx, "FD:quaternion w=|q|^-2 NInv qdot (convertQuaternionDotToAngVel)", v3Err<P>(Rotation_<P>::convertQuaternionDotToAngVel(qP, qdFDp), n2 * w), (16 * eps + fdRel) * (n2 * wn + 1e-30L))) return;
    Mat<4, 3, P> Nd = Rotation_<P>::calcUnnormalizedNDotForQuaternion(qdot);
    if (!judge<P>(ctx, "FD:quaternion NDot", matErr<P, 4, 3>(Nd, NdFD), (8 * eps + fdRel) * (qn * wn + 1e-30L))) return;
    Vec<4, P> qdd = Rotation_<P>::convertAngVelDotToQuaternionDotDot(qP, wP, bP);
    LD e3 = 0; for (int i = 0; i < 4; ++i) e3 = std::max(e3, std::fabs((LD)qdd[i] - qddFD[i]));
    if (!judge<P>(ctx, "FD:quaternion qdotdot (convertAngVelDotToQuaternionDotDot)", e3, (16 * eps + fdRel) * (qn * (bn + wn * wn) + 1e-30L), "lib=(" + pbt::str((double)qdd[0]) + "," + pbt::str((double)qdd[1]) + ",..) fd=(" + pbt::str((double)qddFD[0]) + "," + pbt::str((double)qddFD[1]) + ",..)")) return;
}

void property(const pbt::Tape& t, pbt::Ctx& ctx) {
    pbt::Reader g0(t[0]); bool isFloat = g0.boolean(); ctx.label(isFloat ? "float" : "double");
    for (size_t k = 1; k < t.size() && !ctx.failed; ++k) {
        pbt::Reader g(t[k]); int kind = g.pick(4);     // 0,1 body-XYZ; 2 body-ZYX; 3 quaternion
        if (isFloat) { if (kind <= 1) kindEuler<float>(g, ctx, false); else if (kind == 2) kindEuler<float>(g, ctx, true); else kindQuat<float>(g, ctx); }
        else         { if (kind <= 1) kindEuler<double>(g, ctx, false); else if (kind == 2) kindEuler<double>(g, ctx, true); else kindQuat<double>(g, ctx); }
    }
}

pbt::Config config() {
    pbt::Config c; c.prop = "C28"; c.K = 24; c.minUnits = 1;
    c.quick = {4000, 100000, 6, 8}; c.thorough = {30000, 1000000, 8, 60};
    c.rule = "tape -> precision + units {body-XYZ angles (2/4), body-ZYX angles, quaternion}; q0,q2 any angle, q1 = asin(0.9949 u) (|cos q1| >= 0.1; uniform / close to the limit / small / reflected into the non-principal chart), quaternion direction uniform / nearly pure / near 180 deg with norm 1 or 0.3..3; w and b = direction (1/4 axis aligned) x log-uniform 1e-2..1e2. Non-trivial: w not along a coordinate axis and q1 != 0.";
    c.assumptions = {"long double finite differences (6th order, h ~ 2e-3 cos(q1)/(1+|w|+sqrt|b|)) are accurate to 1e-11 relative (calibrated: observed 2e-13)", "motion with w(t)=w+bt represented by the Magnus expansion to t^3 (even-order errors cancel in central differences)", "unnormalised quaternion convention NInv*N = |q|^2 I is the documented one"};
    c.requiredLabels = {"float", "double", "euler123", "euler321", "quaternion", "quat:unit", "quat:unnormalised", "chart:non-principal", "cond:1/cos>5"};
    return c;
}
} // namespace
PBT_MAIN(config(), property)
