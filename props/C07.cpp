// C07 -- Constraint errors form a derivative hierarchy with adjoint forces (DESIGN.md 5, C07).
// Domain: mbgen tree (1..6 bodies, all mobilizer types) + 1..4 constraints of the 19 built-in types (consgen.h) on
// random body pairs / coordinates, time != 0, random udot, multipliers; every case is judged in up to three regimes:
// R2 violated (state as generated), R1 position-assembled (projectQ), R0 on the manifold (projectQ + projectU).
// Oracle, per constraint FORMULATION group (consgen::typeInfo, from the source comments):
//  H rows, every regime: getUErr = d/dt getQErr and calcConstraintAccelerationErrors(udot) = d/dt getUErr along
//    (t, q(t), u(t)=u+t*udot) by 5-point differences; Pq*N*w = d/ds perr(q+s*N*w).
//  C rows (Ball, Weld translation): the same in R0 (and verr=d/dt perr in R1); off the manifold the literal statement
//    fails by design (known c07-coincident-point-offmanifold) -- in EVERY regime verr/aerr are compared with my
//    evaluation of the documented formulas v_AS-v_AC, a_AS-a_AC from reported body velocities/accelerations.
//  N rows (NoSlip1D, rolling rows of sphere/edge contacts): aerr is a frozen-material-point derivative (known
//    c07-frozen-material-point-aerr); NoSlip1D's verr/aerr are compared with the documented formula.
//  all rows, all regimes: calcG = multiplyByG(e_j) = (calcGTranspose)' = multiplyByGTranspose(e_i); same for PV, P,
//    Pq and Pq = P*NInv, P = Pq*N; d verr/du (central differences of getUErr, exact) = PV; aerr(udot) affine with
//    slope G and intercept calcBiasForAccelerationConstraints = zero-length-udot form; pverr = P*u + bias;
//    virtual work: multiplyByGTranspose(lambda) = J'*bodyForces + mobilityForces of
//    calcConstraintForcesFromMultipliers(lambda) = G'*lambda.
//  history: States are judged in place; afterwards only u is changed in the last State judged, everything C07 reads (qerr, uerr, aerr,
//    both bias vectors, G, G') is compared with a fresh State at the same (t,q,u) and all relations above are re-applied there; then a
//    q-only and (time-dependent constraints) a t-only change with the direct comparison.
#include "pbt.h"
#include "mbgen.h"
#include "consgen.h"
#include "refdyn.h"
using namespace SimTK;

namespace {
struct Rng { uint64_t s; double next() { s += 0x9E3779B97F4A7C15ull; uint64_t z = s; z = (z ^ (z >> 30)) * 0xBF58476D1CE4E5B9ull; z = (z ^ (z >> 27)) * 0x94D049BB133111EBull; z ^= z >> 31; return (z >> 11) / 9007199254740992.0 * 2 - 1; } };
std::string S(double a) { return pbt::str(a); }
std::string I(int a) { return std::to_string(a); }
Real maxAbsM(const Matrix& M) { return refdyn::maxAbs(M); }
Real maxAbsV(const Vector& v) { return refdyn::maxAbs(v); }
const char* regimeName(int r) { return r == 2 ? "R2" : r == 1 ? "R1" : "R0"; }

// development aid only (never influences a verdict): C07_CALIB=1 prints the largest error/tolerance ratio per clause
struct Calib { std::map<std::string, double> worst; ~Calib() { if (getenv("C07_CALIB")) for (auto& kv : worst) fprintf(stderr, "CALIB %-28s %.3e\n", kv.first.c_str(), kv.second); } };
Calib& calib() { static Calib c; return c; }
bool within(const char* clause, double err, double tol) { if (getenv("C07_CALIB")) { double& w = calib().worst[clause]; if (std::isfinite(err / tol)) w = std::max(w, err / tol); else w = 1e300; } return err <= tol; }

// Judge one state (regime) of a built model. applyKnown=false judges the literal statement (directed reproducers).
// The State is judged IN PLACE (only realized, never modified): its lazily evaluated cache entries get filled, which the history steps rely on.
void judge(pbt::Ctx& ctx, const consgen::Model& cm, consgen::BuiltCons& m, State& s, int regime, uint64_t seed, double udotMag, bool applyKnown) {
    const SimbodyMatterSubsystem& matter = m.matter; const MultibodySystem& sys = m.sys;
    sys.realize(s, Stage::Velocity);
    const int nq = s.getNQ(), nu = s.getNU(), NB = matter.getNumBodies(), nc = (int)cm.cons.size();
    const int nquat = matter.getNumQuaternionsInUse(s);
    const std::string R = std::string(regimeName(regime)) + ": ";
    auto known = [&](const char* id) { return applyKnown && ctx.known(id); };
    Rng rng{seed * 0x100000001ull + 12345 + regime};

    // ---- equation bookkeeping (documented layout: [holonomic | nonholonomic | acceleration-only])
    std::vector<consgen::Rows> rows(nc); int mp = 0, mv = 0, ma = 0;
    for (int i = 0; i < nc; ++i) { rows[i] = consgen::rowsOf(m.cons[i], s); mp += rows[i].mp; mv += rows[i].mv; ma += rows[i].ma; }
    const int mt = mp + mv + ma;
    if (!ctx.check(s.getNQErr() == mp + nquat && s.getNUErr() == mp + mv && s.getNUDotErr() == mt, R + "qerr/uerr/udoterr sizes " + I(s.getNQErr()) + "/" + I(s.getNUErr()) + "/" + I(s.getNUDotErr()) + " do not match mp+nquat, mp+mv, mp+mv+ma = " + I(mp + nquat) + "/" + I(mp + mv) + "/" + I(mt))) return;
    if (mt == 0) return;
    std::vector<char> grp(mt, '?'); std::vector<int> owner(mt, -1);
    for (int i = 0; i < nc; ++i) {
        int a, b, c; cm.cons[i].counts(a, b, c); if (cm.cons[i].disabled) a = b = c = 0;
        if (!ctx.check(rows[i].mp == a && rows[i].mv == b && rows[i].ma == c, R + "constraint " + I(i) + " (" + consgen::consName(cm.cons[i].type) + ") reports " + I(rows[i].mp) + "," + I(rows[i].mv) + "," + I(rows[i].ma) + " equations, documentation says " + I(a) + "," + I(b) + "," + I(c))) return;
        std::string g = cm.cons[i].rowGroups();
        for (int j = 0; j < a + b + c; ++j) {
            int r = j < a ? rows[i].px0 + j : j < a + b ? rows[i].vx0 + (j - a) : rows[i].ax0 + (j - a - b);
            bool okRange = j < a ? (r >= 0 && r < mp) : j < a + b ? (r >= mp && r < mp + mv) : (r >= mp + mv && r < mt);
            if (!ctx.check(okRange && owner[r] == -1, R + "multiplier index " + I(r) + " of constraint " + I(i) + " is outside its block or used twice")) return;
            owner[r] = i; grp[r] = g[j];
        }
    }
    for (int i = 0; i < nc; ++i) { std::string why; if (!cm.cons[i].disabled && consgen::degenerateAt(cm.cons[i], m, s, why)) { ctx.label(std::string("skipped-regime:") + why); return; } }
    // distance-type equations (Rod, sphere centres, squared-distance Custom) behave like 1/r: the 5-point stencil (h=1e-3) has a relative
    // truncation error ~(h*v/r)^4, v = relative speed of the two end points; keep it below 1e-7 (r >= 0.06*v)
    for (int i = 0; i < nc; ++i) { const consgen::ConsSpec& c = cm.cons[i]; if (c.disabled) continue;
        if (c.type == consgen::Rod || c.type == consgen::SphereOnSphereContact || (c.type == consgen::Custom && c.flavour == 1)) {
            Real r = (m.mb[c.b2].findStationLocationInGround(s, c.p2) - m.mb[c.b1].findStationLocationInGround(s, c.p1)).norm(), v = (m.mb[c.b2].findStationVelocityInGround(s, c.p2) - m.mb[c.b1].findStationVelocityInGround(s, c.p1)).norm();
            if (r < 0.06 * v) { ctx.label("skipped-regime:end-points-too-close-for-the-difference-stencil"); return; } } }
    ctx.label(std::string("regime:") + regimeName(regime));
    for (int i = 0; i < nc; ++i) ctx.label(std::string("judged:") + consgen::consName(cm.cons[i].type) + ":" + regimeName(regime));

    const Real t0 = s.getTime();
    const Vector q = s.getQ(), u = s.getU(), qdot = s.getQDot();
    Vector udot(nu), udot2(nu), lam(mt), wdir(nu), zq(nq);
    for (int i = 0; i < nu; ++i) { udot[i] = udotMag * rng.next(); udot2[i] = 2 * rng.next(); wdir[i] = rng.next(); }
    for (int i = 0; i < mt; ++i) lam[i] = 2 * rng.next();
    for (int i = 0; i < nq; ++i) zq[i] = rng.next();
    const Real U = maxAbsV(u), UD = maxAbsV(udot);
    const Vector qerr = s.getQErr(), uerr = s.getUErr();
    Vector aerr; matter.calcConstraintAccelerationErrors(s, udot, aerr);
    if (!ctx.check(aerr.size() == mt, R + "calcConstraintAccelerationErrors returns " + I(aerr.size()) + " entries, expected " + I(mt))) return;

    // ---- matrices through every route
    Matrix G, Gt; matter.calcG(s, G); matter.calcGTranspose(s, Gt);
    if (!ctx.check(G.nrow() == mt && G.ncol() == nu && Gt.nrow() == nu && Gt.ncol() == mt, R + "calcG/calcGTranspose have wrong shape")) return;
    Vector biasG, biasA, biasA0; matter.calcBiasForMultiplyByG(s, biasG); matter.calcBiasForAccelerationConstraints(s, biasA); matter.calcConstraintAccelerationErrors(s, Vector(), biasA0);
    if (!ctx.check(biasG.size() == mt && biasA.size() == mt && biasA0.size() == mt, R + "bias vectors have wrong size")) return;
    const Real gs = 1 + maxAbsM(G) + maxAbsV(biasA) + maxAbsV(biasG) + maxAbsV(aerr), tolG = 1e-10 * gs * (nu + 4);
    for (int i = 0; i < mt; ++i) for (int j = 0; j < nu; ++j) if (!within("G=Gt'", std::abs(G(i, j) - Gt(j, i)), tolG)) {
        ctx.fail(R + "calcG(" + I(i) + "," + I(j) + ")=" + S(G(i, j)) + " != calcGTranspose'=" + S(Gt(j, i)) + " (row of constraint " + I(owner[i]) + " " + consgen::consName(cm.cons[owner[i]].type) + "): error routines and force routines disagree"); return; }
    for (int j = 0; j < nu; ++j) { Vector e(nu); e = 0; e[j] = 1; Vector col, col2; matter.multiplyByG(s, e, col); matter.multiplyByG(s, e, biasG, col2);
        if (!ctx.check(col.size() == mt && col2.size() == mt, R + "multiplyByG output size")) return;
        for (int i = 0; i < mt; ++i) if (!within("mulG", std::abs(col[i] - G(i, j)) + std::abs(col2[i] - G(i, j)), tolG)) { ctx.fail(R + "multiplyByG(e_" + I(j) + ")[" + I(i) + "]=" + S(col[i]) + "/" + S(col2[i]) + " != calcG entry " + S(G(i, j))); return; } }
    for (int i = 0; i < mt; ++i) { Vector e(mt); e = 0; e[i] = 1; Vector col; matter.multiplyByGTranspose(s, e, col);
        if (!ctx.check(col.size() == nu, R + "multiplyByGTranspose output size")) return;
        for (int j = 0; j < nu; ++j) if (!within("mulGt", std::abs(col[j] - Gt(j, i)), tolG)) { ctx.fail(R + "multiplyByGTranspose(e_" + I(i) + ")[" + I(j) + "]=" + S(col[j]) + " != calcGTranspose entry " + S(Gt(j, i))); return; } }
    {   // PV, P
        Matrix PV, PVt, P, Pt; matter.calcPV(s, PV); matter.calcPVTranspose(s, PVt); matter.calcP(s, P); matter.calcPt(s, Pt);
        if (!ctx.check(PV.nrow() == mp + mv && PV.ncol() == nu && PVt.nrow() == nu && PVt.ncol() == mp + mv && P.nrow() == mp && (mp == 0 || P.ncol() == nu) && Pt.ncol() == mp && (mp == 0 || Pt.nrow() == nu), R + "calcPV/calcPVTranspose/calcP/calcPt have wrong shape")) return;
        for (int i = 0; i < mp + mv; ++i) for (int j = 0; j < nu; ++j) if (!within("PV", std::abs(PV(i, j) - G(i, j)) + std::abs(PVt(j, i) - G(i, j)), tolG)) { ctx.fail(R + "calcPV/calcPVTranspose (" + I(i) + "," + I(j) + ") = " + S(PV(i, j)) + "/" + S(PVt(j, i)) + " differ from the G entry " + S(G(i, j))); return; }
        for (int i = 0; i < mp; ++i) for (int j = 0; j < nu; ++j) if (!within("P", std::abs(P(i, j) - G(i, j)) + std::abs(Pt(j, i) - G(i, j)), tolG)) { ctx.fail(R + "calcP/calcPt (" + I(i) + "," + I(j) + ") = " + S(P(i, j)) + "/" + S(Pt(j, i)) + " differ from the G entry " + S(G(i, j))); return; }
        Vector bPV; matter.calcBiasForMultiplyByPV(s, bPV); Vector o1, o2, o3; matter.multiplyByPV(s, wdir, o1); matter.multiplyByPV(s, wdir, bPV, o2);
        Vector lpv(mp + mv); for (int i = 0; i < mp + mv; ++i) lpv[i] = lam[i]; matter.multiplyByPVTranspose(s, lpv, o3);
        if (!ctx.check(o1.size() == mp + mv && o2.size() == mp + mv && o3.size() == nu && bPV.size() == mp + mv, R + "multiplyByPV sizes")) return;
        for (int i = 0; i < mp + mv; ++i) { Real ref = 0; for (int j = 0; j < nu; ++j) ref += G(i, j) * wdir[j]; if (!within("mulPV", std::abs(o1[i] - ref) + std::abs(o2[i] - ref), tolG * nu)) { ctx.fail(R + "multiplyByPV(w)[" + I(i) + "]=" + S(o1[i]) + "/" + S(o2[i]) + " != (G w)=" + S(ref)); return; }
            if (!within("biasPV", std::abs(bPV[i] - biasG[i]), tolG)) { ctx.fail(R + "calcBiasForMultiplyByPV[" + I(i) + "] != calcBiasForMultiplyByG"); return; } }
        for (int j = 0; j < nu; ++j) { Real ref = 0; for (int i = 0; i < mp + mv; ++i) ref += G(i, j) * lpv[i]; if (!within("mulPVt", std::abs(o3[j] - ref), tolG * (mt + 1) * 2)) { ctx.fail(R + "multiplyByPVTranspose(lambda)[" + I(j) + "]=" + S(o3[j]) + " != (PV' lambda)=" + S(ref)); return; } }
    }
    Matrix Pq, Pqt;
    {   // Pq: calcPq is the raw D perr/D q, calcPqTranspose is built from the force routines as (P*NInv)'; the two documented
        // definitions coincide on range(N) (they differ along a quaternion's own direction for constraints on quaternion
        // components), so the cross-route comparison is made on range(N): Pq*N = Pqt'*N = P.
        matter.calcPq(s, Pq); matter.calcPqTranspose(s, Pqt);
        if (!ctx.check(Pq.nrow() == mp && (mp == 0 || Pq.ncol() == nq) && Pqt.ncol() == mp && (mp == 0 || Pqt.nrow() == nq), R + "calcPq/calcPqTranspose have wrong shape")) return;
        if (mp > 0) {
            const Real tolP = 1e-10 * (1 + maxAbsM(Pq) + maxAbsV(biasG)) * (nq + 4);
            Matrix N(nq, nu); for (int j = 0; j < nu; ++j) { Vector e(nu); e = 0; e[j] = 1; Vector col; matter.multiplyByN(s, false, e, col); N(j) = col; }
            for (int i = 0; i < mp; ++i) for (int j = 0; j < nu; ++j) { Real a = 0, b = 0; for (int k = 0; k < nq; ++k) { a += Pq(i, k) * N(k, j); b += Pqt(k, i) * N(k, j); }
                if (!within("Pq*N=P", std::abs(a - G(i, j)), tolP * nq)) { ctx.fail(R + "(calcPq*N)(" + I(i) + "," + I(j) + ")=" + S(a) + " != P entry " + S(G(i, j))); return; }
                if (!within("Pqt'*N=P", std::abs(b - G(i, j)), tolP * nq)) { ctx.fail(R + "(calcPqTranspose'*N)(" + I(i) + "," + I(j) + ")=" + S(b) + " != P entry " + S(G(i, j))); return; } }
            Vector bp; matter.calcBiasForMultiplyByPq(s, bp); Vector o1, o2, o3, lp(mp); for (int i = 0; i < mp; ++i) lp[i] = lam[i];
            matter.multiplyByPq(s, zq, o1); matter.multiplyByPq(s, zq, bp, o2); matter.multiplyByPqTranspose(s, lp, o3);
            if (!ctx.check(o1.size() == mp && o2.size() == mp && o3.size() == nq && bp.size() == mp, R + "multiplyByPq sizes")) return;
            Vector NInvz; matter.multiplyByNInv(s, false, zq, NInvz);
            for (int i = 0; i < mp; ++i) { Real ref = 0, ref2 = 0, ref3 = 0; for (int j = 0; j < nq; ++j) { ref += Pq(i, j) * zq[j]; ref3 += Pqt(j, i) * zq[j]; } for (int j = 0; j < nu; ++j) ref2 += G(i, j) * NInvz[j];
                if (!within("mulPq", std::abs(o1[i] - ref) + std::abs(o2[i] - ref), tolP * nq)) { ctx.fail(R + "multiplyByPq(z)[" + I(i) + "]=" + S(o1[i]) + "/" + S(o2[i]) + " != (calcPq z)=" + S(ref)); return; }
                if (!within("Pqt'=P*NInv", std::abs(ref3 - ref2), tolP * nq * (1 + maxAbsV(NInvz)))) { ctx.fail(R + "calcPqTranspose'*z=" + S(ref3) + " != P*NInv*z=" + S(ref2) + " at holonomic row " + I(i)); return; }
                if (!within("biasPq", std::abs(bp[i] - biasG[i]), tolP)) { ctx.fail(R + "calcBiasForMultiplyByPq[" + I(i) + "]=" + S(bp[i]) + " != holonomic part of calcBiasForMultiplyByG " + S(biasG[i])); return; } }
            for (int j = 0; j < nq; ++j) { Real ref = 0; for (int i = 0; i < mp; ++i) ref += Pqt(j, i) * lp[i]; if (!within("mulPqt", std::abs(o3[j] - ref), tolP * (mp + 1) * 2)) { ctx.fail(R + "multiplyByPqTranspose(lambda)[" + I(j) + "]=" + S(o3[j]) + " != (calcPqTranspose lambda)=" + S(ref)); return; } }
        }
    }
    // ---- velocity level: pverr = P u + bias; d verr / du = PV (central differences are exact: verr is at most quadratic in u)
    {
        for (int i = 0; i < mp; ++i) { Real ref = biasG[i]; for (int j = 0; j < nu; ++j) ref += G(i, j) * u[j]; if (!within("pverr=Pu+c", std::abs(ref - uerr[i]), tolG * (1 + U) * nu)) { ctx.fail(R + "getUErr[" + I(i) + "]=" + S(uerr[i]) + " != P*u + calcBiasForMultiplyByG = " + S(ref)); return; } }
        for (int i = mp; i < mt; ++i) if (!within("biasG=biasA", std::abs(biasG[i] - biasA[i]), tolG)) { ctx.fail(R + "calcBiasForMultiplyByG[" + I(i) + "]=" + S(biasG[i]) + " != calcBiasForAccelerationConstraints " + S(biasA[i]) + " on a nonholonomic/acceleration-only row"); return; }
        if (mp + mv > 0) { State a = s, b = s; a.updU() = u + wdir; b.updU() = u - wdir; sys.realize(a, Stage::Velocity); sys.realize(b, Stage::Velocity);
            for (int i = 0; i < mp + mv; ++i) { Real d = 0.5 * (a.getUErr()[i] - b.getUErr()[i]), ref = 0; for (int j = 0; j < nu; ++j) ref += G(i, j) * wdir[j];
                if (!within("dverr/du=PV", std::abs(d - ref), 1e-9 * gs * (1 + U) * (nu + 4))) { ctx.fail(R + "d getUErr[" + I(i) + "]/du along w = " + S(d) + " != (PV w) = " + S(ref) + " (constraint " + I(owner[i]) + " " + consgen::consName(cm.cons[owner[i]].type) + ")"); return; } } }
    }
    // ---- acceleration level: affine in udot with slope G and intercept bias
    Vector qdd0; { Vector z(nu); z = 0; matter.calcQDotDot(s, z, qdd0); }
    {
        Vector aerr2; matter.calcConstraintAccelerationErrors(s, udot2, aerr2);
        for (int i = 0; i < mt; ++i) {
            Real gu = 0, gd = 0; for (int j = 0; j < nu; ++j) { gu += G(i, j) * udot[j]; gd += G(i, j) * (udot2[j] - udot[j]); }
            const Real tolA = tolG * (1 + UD + 2) * nu;
            if (!within("aerr-slope", std::abs((aerr2[i] - aerr[i]) - gd), tolA)) { ctx.fail(R + "aerr(udot2)-aerr(udot)=" + S(aerr2[i] - aerr[i]) + " != G*(udot2-udot)=" + S(gd) + " at row " + I(i) + " (constraint " + I(owner[i]) + " " + consgen::consName(cm.cons[owner[i]].type) + ")"); return; }
            if (!within("bias0=bias", std::abs(biasA0[i] - biasA[i]), tolG)) { ctx.fail(R + "zero-length-udot calcConstraintAccelerationErrors[" + I(i) + "]=" + S(biasA0[i]) + " != calcBiasForAccelerationConstraints " + S(biasA[i])); return; }
            const consgen::ConsSpec& c = cm.cons[owner[i]];
            Real expect = gu + biasA[i];
            if (i < mp && c.qOnNonIdentityN && known("accel-bias-omits-ndot-u")) {
                // known: the bias is evaluated with zero qdotdot instead of qdotdot(udot=0)=NDot*u for the constrained q's.
                // Refined oracle on exactly these rows: the discrepancy is the documented Pq*(NDot*u).
                ctx.label("excluded:accel-bias-omits-ndot-u"); for (int j = 0; j < nq; ++j) expect += Pq(i, j) * qdd0[j];
            }
            if (!within("aerr=Gudot+b", std::abs(aerr[i] - expect), tolA * (1 + U * U))) { ctx.fail(R + "calcConstraintAccelerationErrors(udot)[" + I(i) + "]=" + S(aerr[i]) + " != G*udot + calcBiasForAccelerationConstraints = " + S(gu + biasA[i]) + " (constraint " + I(owner[i]) + " " + consgen::consName(c.type) + (c.qOnNonIdentityN ? ", constrained q on a mobilizer with qdot!=u" : "") + ")"); return; }
        }
    }
    // ---- virtual work
    {
        Vector Gtl; matter.multiplyByGTranspose(s, lam, Gtl); Vector_<SpatialVec> bf; Vector mf; matter.calcConstraintForcesFromMultipliers(s, lam, bf, mf);
        if (!ctx.check(Gtl.size() == nu && bf.size() == NB && mf.size() == nu, R + "calcConstraintForcesFromMultipliers / multiplyByGTranspose sizes")) return;
        Vector JtF; matter.multiplyBySystemJacobianTranspose(s, bf, JtF);
        Real fs = 1 + maxAbsV(Gtl) + maxAbsV(JtF) + maxAbsV(mf);
        for (int j = 0; j < nu; ++j) { Real ref = 0; for (int i = 0; i < mt; ++i) ref += G(i, j) * lam[i];
            if (!within("virtual-work", std::abs(Gtl[j] - (JtF[j] + mf[j])), 1e-10 * fs * (NB + 4))) { ctx.fail(R + "multiplyByGTranspose(lambda)[" + I(j) + "]=" + S(Gtl[j]) + " != J'*bodyForces + mobilityForces = " + S(JtF[j] + mf[j]) + " from calcConstraintForcesFromMultipliers"); return; }
            if (!within("Gt*lambda", std::abs(Gtl[j] - ref), tolG * (mt + 1) * 2)) { ctx.fail(R + "multiplyByGTranspose(lambda)[" + I(j) + "]=" + S(Gtl[j]) + " != (calcG' lambda) = " + S(ref) + ": constraint forces are not applied along G'"); return; } }
    }
    // ---- documented formulas for the C rows (Ball, Weld translation) and NoSlip1D from reported kinematics
    {
        Vector_<SpatialVec> A; matter.calcBodyAccelerationFromUDot(s, udot, A);
        auto pv = [&](int b, const Vec3& pG) { const SpatialVec& V = m.mb[b].getBodyVelocity(s); return Vec3(V[1] + V[0] % (pG - m.mb[b].getBodyOriginLocation(s))); };
        auto pa = [&](int b, const Vec3& pG) { const SpatialVec& V = m.mb[b].getBodyVelocity(s); Vec3 r = pG - m.mb[b].getBodyOriginLocation(s); const SpatialVec& Ab = A[m.mb[b].getMobilizedBodyIndex()]; return Vec3(Ab[1] + Ab[0] % r + V[0] % (V[0] % r)); };
        for (int i = 0; i < nc; ++i) {
            const consgen::ConsSpec& c = cm.cons[i]; if (c.disabled) continue;
            if (!(c.type == consgen::Ball || c.type == consgen::Weld || c.type == consgen::NoSlip1D)) continue;
            const MobilizedBody& anc = m.cons[i].getAncestorMobilizedBody(); const Rotation& R_GA = anc.getBodyRotation(s); const Vec3 w_GA = anc.getBodyAngularVelocity(s);
            if (c.type == consgen::NoSlip1D) {
                const Vec3 P = m.mb[c.b3].findStationLocationInGround(s, c.p1), n = m.mb[c.b3].getBodyRotation(s) * Vec3(c.a1), w_GC = m.mb[c.b3].getBodyAngularVelocity(s);
                const Vec3 dv = pv(c.b2, P) - pv(c.b1, P), dA = pa(c.b2, P) - pa(c.b1, P);
                const Real vref = ~dv * n, aref = ~(dA - (w_GA + w_GC) % dv) * n; const int r = rows[i].vx0;
                const Real sc = 1 + pv(c.b2, P).norm() + pv(c.b1, P).norm(), sa = sc + pa(c.b2, P).norm() + pa(c.b1, P).norm() + (w_GA.norm() + w_GC.norm()) * dv.norm();
                if (!within("doc-NoSlip-verr", std::abs(uerr[r] - vref), 1e-10 * sc)) { ctx.fail(R + "NoSlip1D (constraint " + I(i) + ") getUErr=" + S(uerr[r]) + " != documented (v_P1-v_P0).n = " + S(vref)); return; }
                if (!within("doc-NoSlip-aerr", std::abs(aerr[r] - aref), 1e-10 * sa)) { ctx.fail(R + "NoSlip1D (constraint " + I(i) + ") aerr=" + S(aerr[r]) + " != documented (a_P1-a_P0-w_AC x (v_P1-v_P0)).n = " + S(aref)); return; }
            } else {
                const Vec3 Sg = m.mb[c.b2].findStationLocationInGround(s, c.p2);
                const Vec3 dv = pv(c.b2, Sg) - pv(c.b1, Sg), dA = pa(c.b2, Sg) - pa(c.b1, Sg) - 2 * (w_GA % dv);
                const Vec3 vref = ~R_GA * dv, aref = ~R_GA * dA; const int r0 = rows[i].px0 + (c.type == consgen::Weld ? 3 : 0);
                const Real sc = 1 + pv(c.b2, Sg).norm() + pv(c.b1, Sg).norm(), sa = sc + pa(c.b2, Sg).norm() + pa(c.b1, Sg).norm() + 2 * w_GA.norm() * dv.norm();
                for (int k = 0; k < 3; ++k) {
                    if (!within("doc-Ball-verr", std::abs(uerr[r0 + k] - vref[k]), 1e-10 * sc)) { ctx.fail(R + consgen::consName(c.type) + " (constraint " + I(i) + ") getUErr[" + I(r0 + k) + "]=" + S(uerr[r0 + k]) + " != documented v_AS-v_AC = " + S(vref[k])); return; }
                    if (!within("doc-Ball-aerr", std::abs(aerr[r0 + k] - aref[k]), 1e-10 * sa)) { ctx.fail(R + consgen::consName(c.type) + " (constraint " + I(i) + ") aerr[" + I(r0 + k) + "]=" + S(aerr[r0 + k]) + " != documented a_AS-a_AC = " + S(aref[k])); return; }
                }
            }
        }
    }
    // ---- derivative hierarchy by 5-point differences along (t, q(t), u(t) = u + t*udot)
    {
        Vector qdd; matter.calcQDotDot(s, udot, qdd);
        const Real h = 1e-3;
        // SphereOnSphereContact's tangential axes are an arbitrary function of the pose: only difference verr where they stay put
        std::vector<char> frameSmooth(nc, 1); std::vector<Vec3> cx0(nc);
        auto frameX = [&](int i, const State& w) { return Vec3(Constraint::SphereOnSphereContact::downcast(m.cons[i]).findContactFrameInG(w).x()); };
        for (int i = 0; i < nc; ++i) if (cm.cons[i].type == consgen::SphereOnSphereContact && !cm.cons[i].disabled) cx0[i] = frameX(i, s);
        auto errAt = [&](Real tt, Vector& pe, Vector& ve) { State w = s; w.setTime(t0 + tt); w.updQ() = q + tt * qdot + (0.5 * tt * tt) * qdd; w.updU() = u + tt * udot; sys.realize(w, Stage::Velocity); pe = w.getQErr(); ve = w.getUErr();
            for (int i = 0; i < nc; ++i) if (cm.cons[i].type == consgen::SphereOnSphereContact && !cm.cons[i].disabled && dot(frameX(i, w), cx0[i]) < 0.99) frameSmooth[i] = 0; };
        Vector p1, p2, p3, p4, v1, v2, v3, v4; errAt(h, p1, v1); errAt(-h, p2, v2); errAt(2 * h, p3, v3); errAt(-2 * h, p4, v4);
        Vector Nw; matter.multiplyByN(s, false, wdir, Nw);
        auto perrAt = [&](Real tt) { State w = s; w.updQ() = q + tt * Nw; sys.realize(w, Stage::Position); return Vector(w.getQErr()); };
        Vector dq; if (mp > 0) { const Real hq = 1e-3; Vector a1 = perrAt(hq), a2 = perrAt(-hq), a3 = perrAt(2 * hq), a4 = perrAt(-2 * hq); dq = (8.0 * (a1 - a2) - (a3 - a4)) / (12 * hq); }
        const Real vsc = (1 + U) * (1 + U) * (1 + UD);
        for (int r = 0; r < mp + mv; ++r) {
            const char g = grp[r]; const consgen::ConsSpec& c = cm.cons[owner[r]]; const std::string who = " (constraint " + I(owner[r]) + " " + consgen::consName(c.type) + ", row " + I(r) + ", group " + std::string(1, g) + ")";
            const Real dp = r < mp ? (8.0 * (p1[r] - p2[r]) - (p3[r] - p4[r])) / (12 * h) : 0, dv = (8.0 * (v1[r] - v2[r]) - (v3[r] - v4[r])) / (12 * h);
            bool litPV = r < mp, litVA = true, litPq = r < mp;
            if (g == 'C' && regime == 2 && known("c07-coincident-point-offmanifold")) { litPV = litPq = false; ctx.label("excluded:c07-coincident-point-offmanifold"); }
            if (g == 'C' && regime != 0 && known("c07-coincident-point-offmanifold")) { litVA = false; if (regime == 1) ctx.label("excluded:c07-coincident-point-offmanifold"); }
            if (g == 'N' && known("c07-frozen-material-point-aerr")) { litVA = false; ctx.label("excluded:c07-frozen-material-point-aerr"); }
            if (g == 'F' && regime != 0 && known("c07-frozen-material-point-aerr")) { litVA = false; ctx.label("excluded:c07-frozen-material-point-aerr"); }
            if (g == 'F' && litVA && !frameSmooth[owner[r]]) { litVA = false; ctx.label("skipped:contact-frame-axes-jump"); }
            if (litPV && !within("FD-verr=d/dt-perr", std::abs(dp - uerr[r]), 1e-6 * (1 + std::abs(uerr[r])) * vsc)) { ctx.fail(R + "getUErr=" + S(uerr[r]) + " is not the time derivative of getQErr (5-point differences: " + S(dp) + ")" + who); return; }
            if (litVA && !within("FD-aerr=d/dt-verr", std::abs(dv - aerr[r]), 1e-6 * (1 + std::abs(aerr[r])) * vsc)) { ctx.fail(R + "calcConstraintAccelerationErrors=" + S(aerr[r]) + " is not the time derivative of getUErr (5-point differences: " + S(dv) + ")" + who); return; }
            if (litPq) { Real ref = 0; for (int j = 0; j < nq; ++j) ref += Pq(r, j) * Nw[j]; if (!within("FD-Pq=dperr/dq", std::abs(dq[r] - ref), 1e-6 * (1 + std::abs(ref)))) { ctx.fail(R + "Pq*(N w)=" + S(ref) + " is not the directional derivative of getQErr along N*w (5-point differences: " + S(dq[r]) + ")" + who); return; } }
        }
    }
}

// Is the u of the spec non-zero?
bool nonzeroU(const mbgen::ModelSpec& sp) { if (sp.zeroU) return false; for (auto& b : sp.bodies) for (int k = 0; k < mbgen::mobNU(b.type); ++k) if (b.u[k] != 0) return true; return false; }

// Direct comparison of everything C07 looks at between a State with a history and a fresh State at the identical (t,q,u).
bool sameAsFresh(pbt::Ctx& ctx, const char* step, consgen::BuiltCons& m, State& h, const State& pristine, const Vector& udot) {
    const SimbodyMatterSubsystem& matter = m.matter; const MultibodySystem& sys = m.sys;
    State f = pristine; f.setTime(h.getTime()); f.updQ() = h.getQ(); f.updU() = h.getU();
    bool th = false, tf = false;
    try { sys.realize(h, Stage::Velocity); } catch (const std::exception&) { th = true; }
    try { sys.realize(f, Stage::Velocity); } catch (const std::exception&) { tf = true; }
    if (th != tf) { ctx.fail(std::string(step) + ": realize(Velocity) " + (th ? "throws" : "succeeds") + " on the re-used State but " + (tf ? "throws" : "succeeds") + " on a fresh State with the same (t,q,u)"); return false; }
    if (th) { ctx.label(std::string(step) + ":both-threw"); return false; }
    auto same = [](Real a, Real b) { return a == b || (std::isnan(a) && std::isnan(b)) || std::abs(a - b) <= 1e-12 * (1 + std::abs(a) + std::abs(b)); };
    auto cmpV = [&](const char* what, const Vector& a, const Vector& b) { if (a.size() != b.size()) { ctx.fail(std::string(step) + ": " + what + " sizes differ between the re-used and a fresh State"); return false; }
        for (int i = 0; i < a.size(); ++i) if (!same(a[i], b[i])) { ctx.fail(std::string(step) + ": " + what + "[" + I(i) + "] = " + S(a[i]) + " in the State that was realized and queried before the change, " + S(b[i]) + " in a fresh State with the same (t,q,u): a stale cache entry survives the change"); return false; } return true; };
    auto cmpM = [&](const char* what, const Matrix& a, const Matrix& b) { if (a.nrow() != b.nrow() || a.ncol() != b.ncol()) { ctx.fail(std::string(step) + ": " + what + " shapes differ"); return false; }
        for (int i = 0; i < a.nrow(); ++i) for (int j = 0; j < a.ncol(); ++j) if (!same(a(i, j), b(i, j))) { ctx.fail(std::string(step) + ": " + what + "(" + I(i) + "," + I(j) + ") = " + S(a(i, j)) + " in the re-used State, " + S(b(i, j)) + " in a fresh State with the same (t,q,u)"); return false; } return true; };
    if (!cmpV("getQErr", h.getQErr(), f.getQErr()) || !cmpV("getUErr", h.getUErr(), f.getUErr())) return false;
    if (h.getNUDotErr() == 0) return true;
    Vector a1, a2, b1, b2, z1, z2, g1, g2; matter.calcConstraintAccelerationErrors(h, udot, a1); matter.calcConstraintAccelerationErrors(f, udot, a2);
    matter.calcBiasForAccelerationConstraints(h, b1); matter.calcBiasForAccelerationConstraints(f, b2); matter.calcConstraintAccelerationErrors(h, Vector(), z1); matter.calcConstraintAccelerationErrors(f, Vector(), z2);
    matter.calcBiasForMultiplyByG(h, g1); matter.calcBiasForMultiplyByG(f, g2);
    if (!cmpV("calcConstraintAccelerationErrors(udot)", a1, a2) || !cmpV("calcBiasForAccelerationConstraints", b1, b2) || !cmpV("zero-length-udot acceleration errors", z1, z2) || !cmpV("calcBiasForMultiplyByG", g1, g2)) return false;
    Matrix G1, G2, T1, T2; matter.calcG(h, G1); matter.calcG(f, G2); matter.calcGTranspose(h, T1); matter.calcGTranspose(f, T2);
    return cmpM("calcG", G1, G2) && cmpM("calcGTranspose", T1, T2);
}

void runModel(pbt::Ctx& ctx, const consgen::Model& cm, double t0, double udotMag, uint64_t seed, int regimes, bool fitted, bool applyKnown) {
    consgen::BuiltCons m(cm); m.finish(cm.spec); m.setState(cm.spec);
    State& s = m.state; s.setTime(t0);
    if (s.getNU() == 0) { ctx.reject("nu=0"); return; }
    const State pristine = s;                       // realized to Model stage only: the template of every "fresh" State
    State sv = s, s1, s0; State* last = nullptr; int lastRegime = 2;
    auto judgeRegimes = [&]() {
    // R2: the generated state; when the constraint parameters were fitted to it (assembled by construction) a perturbed copy
    if (fitted) {
        Rng rng{seed * 77 + 5}; for (int i = 0; i < sv.getNQ(); ++i) sv.updQ()[i] += 0.3 * rng.next();
        for (int b = 0; b < cm.spec.nBodies(); ++b) if (mbgen::mobHasQuaternion(cm.spec.bodies[b].type) && !cm.spec.euler) {
            const MobilizedBody& mb = m.mb[b + 1]; Real n = 0; for (int k = 0; k < 4; ++k) n += mb.getOneQ(sv, k) * mb.getOneQ(sv, k); n = std::sqrt(n); if (n > 0) for (int k = 0; k < 4; ++k) mb.setOneQ(sv, k, mb.getOneQ(sv, k) / n); }
        m.sys.realize(sv, Stage::Position);
        if (!consgen::inDomain(cm.spec, m, sv)) { ctx.label("R2:perturbed-outside-domain"); sv = s; }
    }
    judge(ctx, cm, m, sv, 2, seed, udotMag, applyKnown); last = &sv; lastRegime = 2;
    if (ctx.failed || regimes < 2) return;
    s1 = s;
    try { m.sys.projectQ(s1, 1e-10); } catch (const std::exception&) { ctx.label("R1:assembly-failed"); return; }
    if (!consgen::inDomain(cm.spec, m, s1)) { ctx.label("R1:assembled-outside-domain"); return; }     // (also catches non-finite q)
    judge(ctx, cm, m, s1, 1, seed, udotMag, applyKnown); last = &s1; lastRegime = 1;
    if (ctx.failed || regimes < 3) return;
    s0 = s1;
    try { m.sys.projectU(s0, 1e-10); } catch (const std::exception&) { ctx.label("R0:velocity-projection-failed"); return; }
    // nearly dependent velocity constraints can only be met with enormous speeds; the difference stencils (h=1e-3) need |u|*h << 1
    // (a diverging Newton iteration can even come back "successful" with NaN speeds: every comparison with NaN is false -- C09's subject)
    for (int i = 0; i < s0.getNU(); ++i) if (!std::isfinite(s0.getU()[i])) { ctx.label("R0:projection-returned-nonfinite-speeds"); return; }
    if (!(maxAbsV(s0.getU()) <= 20)) { ctx.label("R0:projected-speeds-too-large"); return; }
    judge(ctx, cm, m, s0, 0, seed, udotMag, applyKnown); last = &s0; lastRegime = 0;
    };
    judgeRegimes();
    if (ctx.failed || !last) return;
    // ---- history: the last State judged has been realized and queried through every operator (lazy caches filled). Change ONLY u in that
    // very State: (a) everything C07 looks at must equal what a fresh State at the identical (t,q,u) gives, (b) all of C07's relations are
    // re-applied to the re-used State (its difference stencils use states whose q moves, i.e. effectively fresh evaluations). Then a q-only
    // and, with a time-dependent constraint, a t-only change with the direct comparison.
    State& h = *last; const int nu = h.getNU();
    Rng rng{seed * 131 + 17}; Vector udot(nu); for (int i = 0; i < nu; ++i) udot[i] = udotMag * rng.next();
    {   Vector un(nu); for (int i = 0; i < nu; ++i) un[i] = 2 * rng.next(); h.updU() = un; ctx.label("history:u-only");
        if (!sameAsFresh(ctx, "history:u-only", m, h, pristine, udot)) return;
        judge(ctx, cm, m, h, std::max(lastRegime, 1), seed + 1, udotMag, applyKnown); if (ctx.failed) { ctx.msg = "history:u-only (relations re-applied on the re-used State): " + ctx.msg; return; } }
    {   Vector qn = h.getQ(); for (int i = 0; i < qn.size(); ++i) qn[i] += 0.05 * rng.next(); h.updQ() = qn; ctx.label("history:q-only");
        if (!sameAsFresh(ctx, "history:q-only", m, h, pristine, udot)) return; }
    bool timeDep = false; for (auto& c : cm.cons) if (!c.disabled && (c.type == consgen::PrescribedMotion || (c.type == consgen::Custom && c.flavour == 0))) timeDep = true;
    if (timeDep) { h.setTime(h.getTime() + 0.37); ctx.label("history:t-only"); sameAsFresh(ctx, "history:t-only", m, h, pristine, udot); }
}

void property(const pbt::Tape& t, pbt::Ctx& ctx) {
    pbt::Reader g(t[0]);
    mbgen::Options mo; mo.maxBodies = 6; mo.allowUnnormalizedQuat = false;
    consgen::Options co; co.maxCons = 4;
    consgen::Model cm = consgen::decode(t, 1, (int)t.size() - 1, g, mo, co);
    const uint64_t seed = g.w();
    double t0 = g.real(-2, 2); if (t0 == 0) t0 = 0.7;
    const double udotMag = g.logreal(0.1, 10);
    const int regimes = 1 + g.pick(3);          // 1: R2 only, 2: R2+R1, 3: R2+R1+R0 (word 0 -> R2 only)
    const bool fitted = g.boolean();            // constraint parameters fitted to the generated state (assembled by construction)
    if (fitted) consgen::fitToState(cm, t0);
    if (ctx.wantDesc) { cm.describe(ctx.desc); ctx.desc << "time=" << t0 << " udotMag=" << udotMag << " regimes=" << regimes << " fitted=" << fitted << " seed=" << seed << "\n"; }
    consgen::labelModel(ctx, cm); ctx.label(fitted ? "fitted-parameters" : "random-parameters");
    bool coupled = false; for (auto& c : cm.cons) if (c.twoBody() && c.b1 > 0 && c.b2 > 0) coupled = true;
    ctx.nontrivial(coupled && nonzeroU(cm.spec));
    runModel(ctx, cm, t0, udotMag, seed, regimes, fitted, true);
}

// ---------------------------------------------------------------- directed reproducers of the known findings
mbgen::BodySpec body(int parent, int type, Vec3 XPFp, Vec3 XBMp) { mbgen::BodySpec b; b.parent = parent; b.type = type; b.X_PF = Transform(XPFp); b.X_BM = Transform(XBMp); b.inKind = 1; b.outKind = 1; b.mass = 1; b.com = Vec3(.1, .2, .3); return b; }
void directedCoincident(pbt::Ctx& ctx) {   // Ball between the second body of a Gimbal+Pin chain (body 1 of the Ball, carrying the coincident point C) and Ground, violated state: verr != d/dt perr
    consgen::Model cm; cm.spec.bodies.push_back(body(0, mbgen::Gimbal, Vec3(.1, .2, .3), Vec3(.3, .2, .1))); cm.spec.bodies.push_back(body(1, mbgen::Pin, Vec3(.5, 0, 0), Vec3(0, .4, 0)));
    double q[] = {0.3, 0.4, 0.5, 0.6}, u[] = {0.5, 0.3, 0.1, -0.1};
    for (int k = 0; k < 3; ++k) { cm.spec.bodies[0].q[k] = q[k]; cm.spec.bodies[0].u[k] = u[k]; } cm.spec.bodies[1].q[0] = q[3]; cm.spec.bodies[1].u[0] = u[3];
    consgen::ConsSpec c; c.type = consgen::Ball; c.b1 = 2; c.b2 = 0; c.p1 = Vec3(.1, .1, .1); c.p2 = Vec3(1, 0, 0); cm.cons.push_back(c);
    if (ctx.wantDesc) cm.describe(ctx.desc);
    runModel(ctx, cm, 0.7, 1.0, 1, 1, false, false);
}
void directedFrozen(pbt::Ctx& ctx) {       // NoSlip1D between two pinned bodies, case = Ground: aerr != d/dt verr
    consgen::Model cm; cm.spec.bodies.push_back(body(0, mbgen::Pin, Vec3(.1, .2, .3), Vec3(.3, .2, .1))); cm.spec.bodies.push_back(body(0, mbgen::Gimbal, Vec3(.5, 0, 0), Vec3(0, .4, 0)));
    cm.spec.bodies[0].q[0] = 0.3; cm.spec.bodies[0].u[0] = 0.8; double q[] = {0.2, 0.4, -0.5}, u[] = {0.5, -0.7, 0.9}; for (int k = 0; k < 3; ++k) { cm.spec.bodies[1].q[k] = q[k]; cm.spec.bodies[1].u[k] = u[k]; }
    consgen::ConsSpec c; c.type = consgen::NoSlip1D; c.b1 = 1; c.b2 = 2; c.b3 = 0; c.p1 = Vec3(.4, .3, .2); c.a1 = UnitVec3(Vec3(1, 2, 3)); cm.cons.push_back(c);
    if (ctx.wantDesc) cm.describe(ctx.desc);
    runModel(ctx, cm, 0.7, 1.0, 1, 1, false, false);
}
void directedBias(pbt::Ctx& ctx) {         // ConstantCoordinate on a Ball mobilizer: aerr(udot) != G udot + calcBiasForAccelerationConstraints
    consgen::Model cm; cm.spec.bodies.push_back(body(0, mbgen::Ball, Vec3(.1, .2, .3), Vec3(.3, .2, .1))); cm.spec.euler = true;
    double q[] = {0.3, 0.4, 0.5}, u[] = {0.5, 0.1, -0.3}; for (int k = 0; k < 3; ++k) { cm.spec.bodies[0].q[k] = q[k]; cm.spec.bodies[0].u[k] = u[k]; }
    consgen::ConsSpec c; c.type = consgen::ConstantCoordinate; c.mob[0] = 1; c.qi[0] = 1; c.value = 0.3; c.qOnNonIdentityN = true; cm.cons.push_back(c);
    if (ctx.wantDesc) cm.describe(ctx.desc);
    runModel(ctx, cm, 0.7, 1.0, 1, 1, false, false);
}

pbt::Config config() {
    pbt::Config c; c.prop = "C07"; c.K = consgen::K; c.minUnits = 2;
    c.quick = {1000, 6000, 20, 30}; c.thorough = {8000, 25000, 24, 240};
    c.rule = "rapidcheck tape -> body units (mbgen: 1..6 bodies, 18 mobilizer types, forward/reversed, frame kinds, quaternion/Euler, non-singular q, u in [-2,2] or 0) and constraint units (consgen: 1..4 constraints of the 19 built-in types on two different bodies incl. Ground / ancestor-descendant pairs, or on random coordinates/speeds; random stations, axes, frames, parameters); time != 0, udot log-uniform magnitude, tape-seeded multipliers; regimes R2 (as generated), R1 (after projectQ 1e-10), R0 (after projectU 1e-10) chosen by a tape word. Non-trivial: some constraint couples two different non-Ground bodies and u != 0; distinct by tape hash.";
    c.assumptions = {"5-point central differences with h=1e-3 along q(t)=q+t*qdot+t^2/2*qdotdot, u(t)=u+t*udot, time advanced too; tolerance 1e-6*(1+|value|)*(1+|u|)^2*(1+|udot|) (observed <= 1e-9 relative)",
                     "algebraic identities between library routes: 1e-10 x (1+|G|+|bias|+|aerr|) x (nu+4); documented-formula references use reported body velocities and calcBodyAccelerationFromUDot (decided by C03/C04)",
                     "regimes R1/R0 are judged only when projection succeeds and leaves every q inside its mobilizer's documented non-singular domain; states with coincident rod end points / sphere centres or nearly parallel contact edges are not judged"};
    c.directed = {{"ball-offmanifold-verr-not-derivative", "c07-coincident-point-offmanifold", directedCoincident},
                  {"noslip1d-aerr-not-derivative", "c07-frozen-material-point-aerr", directedFrozen},
                  {"constantcoordinate-on-ball-bias", "accel-bias-omits-ndot-u", directedBias}};
    c.requiredLabels = {"regime:R2", "regime:R1", "regime:R0", "history:u-only", "history:q-only", "history:t-only", "cons:Rod", "cons:Ball", "cons:Weld", "cons:PointInPlane", "cons:PointOnLine", "cons:ConstantAngle", "cons:ConstantOrientation", "cons:NoSlip1D",
                        "cons:ConstantCoordinate", "cons:ConstantSpeed", "cons:ConstantAcceleration", "cons:CoordinateCoupler", "cons:SpeedCoupler", "cons:PrescribedMotion", "pair:ancestor-descendant", "pair:separate-branches", "pair:Ground-body",
                        "cons:q-of-mobilizer-with-qdot!=u"};
    return c;
}
} // namespace

PBT_MAIN(config(), property)
