// C22 -- Events are detected, localised and handled in time order (DESIGN.md section 5, C22).
// Domain: analytic ODE system (gen/anasys.h) + 0..6 TIME-ONLY witnesses s(t-c) / sin(om(t-c)) (gen/evsys.h) with
// rising/falling/both/none masks, random localisation windows, declared stages Time..Acceleration, as handlers
// or reporters; crossings placed at random times, on report times, on scheduled/periodic times, on other
// crossings (simultaneous), at the initial/final time and exactly on internal step ends (learned by a dry run);
// scheduled-list / periodic handlers and reporters (also coincident); handlers that scale z, kick u, set q, set
// a discrete variable, or terminate; all integrators; driven (A) directly: the harness replays
// TimeStepperRep::stepTo's loop around Integrator::stepTo with return-every-step and judges every return, and
// (B) through TimeStepper (report-all on/off), judged from the handler call log and the returned states.
// Oracle: see property() -- window/ids/transitions/before-state on every ReachedEventTrigger, completeness on
// OBSERVED step boundaries (a trigger that comes and goes within one step may legitimately be missed), exact
// scheduled/periodic times, time order, nothing after termination, handlers chained, restart from modified state.
#include "pbt.h"
#include "anasys.h"
#include "evsys.h"
#include "schedsub.h"
#include "SimTKmath.h"
#include <memory>
#include <set>
using namespace SimTK;
typedef Integrator::SuccessfulStepStatus St;
using evsys::Wit; using evsys::Action; using evsys::sgn;

namespace {

const double Inf = std::numeric_limits<double>::infinity();
const double StateTol = 2e-2, StateTolCPodes = 0.3;       // calibrated, see notes/C22.md

const char* integName(int w) { static const char* n[] = {"RungeKuttaMerson", "RungeKutta3", "RungeKutta2", "RungeKuttaFeldberg", "Verlet", "ExplicitEuler", "SemiExplicitEuler", "SemiExplicitEuler2", "CPodesBDF", "CPodesAdams"}; return n[w]; }
std::unique_ptr<Integrator> makeInteg(int w, const System& sys, double seeStep) {
    switch (w) {
        case 0: return std::unique_ptr<Integrator>(new RungeKuttaMersonIntegrator(sys));
        case 1: return std::unique_ptr<Integrator>(new RungeKutta3Integrator(sys));
        case 2: return std::unique_ptr<Integrator>(new RungeKutta2Integrator(sys));
        case 3: return std::unique_ptr<Integrator>(new RungeKuttaFeldbergIntegrator(sys));
        case 4: return std::unique_ptr<Integrator>(new VerletIntegrator(sys));
        case 5: return std::unique_ptr<Integrator>(new ExplicitEulerIntegrator(sys));
        case 6: return std::unique_ptr<Integrator>(new SemiExplicitEulerIntegrator(sys, seeStep));
        case 7: return std::unique_ptr<Integrator>(new SemiExplicitEuler2Integrator(sys));
        case 8: return std::unique_ptr<Integrator>(new CPodesIntegrator(sys, CPodes::BDF));
        default: return std::unique_ptr<Integrator>(new CPodesIntegrator(sys, CPodes::Adams));
    }
}
const char* stName(St s) {
    switch (s) { case Integrator::ReachedReportTime: return "ReachedReportTime"; case Integrator::ReachedEventTrigger: return "ReachedEventTrigger";
        case Integrator::ReachedScheduledEvent: return "ReachedScheduledEvent"; case Integrator::TimeHasAdvanced: return "TimeHasAdvanced";
        case Integrator::ReachedStepLimit: return "ReachedStepLimit"; case Integrator::EndOfSimulation: return "EndOfSimulation";
        case Integrator::StartOfContinuousInterval: return "StartOfContinuousInterval"; default: return "Invalid"; }
}

struct Sched { int kind; std::vector<double> times; double interval; Action act; int owner = 0; };   // kind: 0 list handler, 1 periodic handler, 2 list reporter, 3 periodic reporter; owner: 0 DefaultSystemSubsystem (addEventHandler/Reporter), 1 the user-written schedsub::ScheduleSubsystem (list kinds only)
struct Case {
    bool tsMode = false; int integ = 0; bool accSet = false; double acc = 1e-3; bool interp = true, finalSet = false, reportAll = false, infNorm = false;
    int stepCtl = 0; double h = 0.01; double t0 = 0, T = 1, timescale = 0.1;
    anasys::Spec spec;
    std::vector<Wit> wits; std::vector<Action> witAct; std::vector<int> witStepEnd;   // witStepEnd[i] >= 0: c := (dry run) advanced time number witStepEnd[i]
    std::vector<std::string> witPlace;
    std::vector<Sched> scheds;
    std::vector<double> reports;     // ascending chunk ends in (t0, T], last == T
    bool customSub = false;   // 1 case in 3: list schedules may be owned by a second, user-written Subsystem (gen/schedsub.h)
    bool wide = false;     // "wide window" regime: every internal step is shorter than the localisation requirement of every witness
    int exclZeroDir = 0, exclPassReq = 0;   // placements turned into random ones because of a listed CPodes finding
    bool cpodes() const { return integ >= 8; }
};

Action decodeAction(pbt::Reader& r) {
    Action a; int k = r.pick(12); uint32_t vw = r.w(); a.index = r.pick(4);
    double u = (vw >> 3) / 536870912.0;
    switch (k) {
        case 6: case 10: a.kind = Action::ScaleZ; a.value = 0.5 + u; break;
        case 7: a.kind = Action::KickU; a.value = -1.5 + 3 * u; break;
        case 8: a.kind = Action::SetQ; a.value = -1.5 + 3 * u; break;
        case 9: a.kind = Action::SetDiscrete; a.value = std::floor(-8 + 16 * u) + 0.5; break;
        case 11: if (vw % 3 == 0) a.kind = Action::Terminate; else { a.kind = Action::KickU; a.value = -1.5 + 3 * u; } break;
        default: a.kind = Action::None;
    }
    return a;
}

// knownZeroDir / knownPassReq: the CPodes findings cpodes-exact-zero-ignores-direction / cpodes-event-window-passes-request
// are listed: the input classes that reach them are not generated for CPodes (exact placements become random ones; counted)
Case decode(const pbt::Tape& t, bool knownZeroDir, bool knownPassReq) {
    Case c; pbt::Reader g(t[0]);
    c.tsMode = g.boolean(); c.integ = g.pick(10);
    { static const char* f = getenv("C22_INTEG"); if (f) c.integ = atoi(f); }    // debugging aid only
    { static const char* f = getenv("C22_MODE"); if (f) c.tsMode = atoi(f) != 0; }
    { uint32_t w = g.w(); if (w != 0) { c.accSet = true; double span = (c.integ == 5 || c.integ == 7) ? 2.0 : 5.0; c.acc = std::pow(10.0, -(2 + (w % 4000) / 4000.0 * span)); } }
    { uint32_t w = g.w(); c.interp = (w & 3) != 1; c.finalSet = ((w >> 2) % 3) == 1; c.reportAll = (w >> 5) & 1; c.infNorm = ((w >> 6) & 3) == 1; }
    { uint32_t w = g.w(); c.stepCtl = (w % 4 == 1) ? 1 : (w % 4 == 2 ? 2 : 0); c.h = std::exp(std::log(2e-3) + (std::log(0.2) - std::log(2e-3)) * ((w >> 8) % 1000) / 1000.0); }
    c.T = std::max(0.3, std::min(2.5, g.real(0.3, 2.5)));
    { uint32_t w = g.w(); c.t0 = (w & 1) ? 3.0 * ((w >> 1) / 2147483648.0) : 0.0; }
    { static const double ts[] = {0.1, 1.0, 0.01}; c.timescale = ts[g.pick(3)]; }
    // "wide window" regime (1 case in 5, not CPodes): time scale 1, accuracy 1e-2, required windows 1..5 and a step bound of
    // 2..8e-3, so accuracy*timescale*window >= 1e-2 exceeds every internal step: events are "already localised" when detected and
    // the only thing that keeps a pending report out of the window is the integrator's own report-time split. Reports/reporter times
    // are also placed a fraction of a step away from crossings (placement "near") so that report and crossing share a step.
    { pbt::Reader g2(t[0]); g2.skip(15); uint32_t w = g2.w(); c.wide = (w % 5 == 1) && !c.cpodes();
      if (c.wide) { c.timescale = 1.0; c.accSet = true; c.acc = 1e-2; c.interp = true; c.stepCtl = ((w >> 4) & 1) ? 2 : 1; c.h = 2e-3 * (1 + ((w >> 5) % 4)); c.T = std::min(c.T, 0.3 + 0.7 * ((w >> 8) % 8) / 8.0); } }
    { pbt::Reader g3(t[0]); g3.skip(13); c.customSub = g3.w() % 3 == 1; }
    c.T += c.t0;
    if (c.cpodes()) { c.interp = true; c.finalSet = false; }       // the CPodes final-time / no-interpolation deviations are C19's known findings
    // system: one complex pair, one real mode, one oscillator (closed-form solution; handlers may modify q,u,z)
    {
        anasys::Block b; b.pair = true; b.a = -2.0 * g.unit(); b.w = 0.5 + 4.5 * g.unit(); c.spec.blocks.push_back(b);
        anasys::Block b2; b2.pair = false; b2.a = -3.0 * g.unit(); b2.w = 0; c.spec.blocks.push_back(b2);
        anasys::Osc o; o.omega = 0.5 + 5.5 * g.unit(); c.spec.oscs.push_back(o);
        uint32_t w = g.w();
        c.spec.z0 = {1.0 + (w & 7) * 0.125, -0.5 + ((w >> 3) & 7) * 0.125, 0.75}; c.spec.q0 = {1.0 - ((w >> 6) & 7) * 0.25}; c.spec.u0 = {((w >> 9) & 7) * 0.25 - 0.5};
        c.spec.t0 = c.t0;
    }
    std::vector<double> pool;   // times already used by earlier units (for coincident placement)
    const double span = c.T - c.t0;
    auto place = [&](pbt::Reader& r, std::string* how, int* stepEnd) -> double {
        int pk = r.pick(8); uint32_t vw = r.w(); double u = vw / 4294967296.0;
        if (stepEnd) *stepEnd = -1;
        switch (pk) {
            case 2: if (!pool.empty()) { if (how) *how = "coincident"; return pool[vw % pool.size()]; } break;
            case 3: if (stepEnd) { *stepEnd = (int)(vw % 24); if (how) *how = "step-end"; return c.T + 10; } break;
            case 4: if (how) *how = "initial-time"; return c.t0;
            case 5: if (how) *how = "final-time"; return c.T;
            case 7: if (!pool.empty()) { if (how) *how = "near"; double d = c.h * (0.1 + 0.8 * ((vw >> 8) % 1024) / 1024.0); return pool[vw % pool.size()] + ((vw >> 20) & 1 ? d : -d); } break;
            default: break;
        }
        if (how) *how = "random";
        return c.t0 + 1.05 * span * u;      // up to 5% beyond T (never reached)
    };
    auto clampIn = [&](double x) { return std::min(c.T, std::max(c.t0, x)); };
    int nRep = 0;
    for (size_t k = 1; k < t.size(); ++k) {
        pbt::Reader r(t[k]); int kind = r.pick(10);
        if (kind <= 4) {
            if (c.wits.size() >= 6) continue;
            Wit w; uint32_t sub = r.w(); w.kind = (sub & 1) ? Wit::Sine : Wit::Linear; w.reporter = (sub >> 1) & 1; w.slope = ((sub >> 2) & 3) == 1 ? -1.0 : 1.0;
            std::string how; int se; w.c = place(r, &how, &se);
            int mk = r.pick(8); w.rising = (mk != 2 && mk != 7); w.falling = (mk != 1 && mk != 7);
            if (c.cpodes() && how != "random") {
                const bool oneDir = w.rising != w.falling;
                bool force = false;
                if (knownPassReq && (how == "coincident" || how == "final-time" || how == "step-end")) { force = true; c.exclPassReq++; }   // (step ends are often scheduled/request times)
                else if (knownZeroDir && oneDir) { force = true; c.exclZeroDir++; }
                if (force) { how = "random"; se = -1; w.c = c.t0 + 1.05 * span * (((sub >> 4) + 0.5) / 268435456.0); }
            }
            { uint32_t ww = r.w(); w.window = ww == 0 ? 0.1 : std::exp(std::log(1e-4) + (std::log(1.0) - std::log(1e-4)) * (ww / 4294967296.0)); }
            w.stage = r.pick(5);
            { uint32_t ow = r.w(); w.omega = 2.0 + 10.0 * ((ow >> 1) / 2147483648.0); if (ow & 1) w.omega = -w.omega; }
            Action a = decodeAction(r); if (w.reporter) a = Action();
            if (c.wide) w.window = 1.0 + (int)(w.window * 1e4) % 5;
            if (c.cpodes()) w.window = std::max(w.window, 1e-2);   // CPodes localises with its own tolerance 100 eps (|t|+|h|) and ignores the requested window
            c.wits.push_back(w); c.witAct.push_back(a); c.witStepEnd.push_back(se); c.witPlace.push_back(how);
            if (se < 0 && w.c >= c.t0 && w.c <= c.T && !(c.cpodes() && knownPassReq)) pool.push_back(w.c);   // (CPodes + listed finding: no later request/scheduled time is put on a crossing)
        } else if (kind == 5 || kind == 7) {
            if (c.scheds.size() >= 4) continue;
            Sched s; s.kind = kind == 5 ? 0 : 2; s.interval = 0; int n = 1 + r.pick(3);
            for (int i = 0; i < n; ++i) { double x = clampIn(place(r, nullptr, nullptr)); s.times.push_back(x); }
            std::sort(s.times.begin(), s.times.end()); s.times.erase(std::unique(s.times.begin(), s.times.end()), s.times.end());
            r.i = 9; s.act = decodeAction(r); if (s.kind == 2) s.act = Action();
            if (c.customSub) { r.i = 12; int nOwn = 0; for (auto& o : c.scheds) if (o.owner == 1 && o.kind == s.kind) nOwn++; if (r.w() % 2 == 0 && nOwn < 2) s.owner = 1; }
            for (double x : s.times) pool.push_back(x);
            c.scheds.push_back(s);
        } else if (kind == 6 || kind == 8) {
            if (c.scheds.size() >= 4) continue;
            Sched s; s.kind = kind == 6 ? 1 : 3; uint32_t iw = r.w();
            s.interval = iw == 0 ? 0.25 : std::exp(std::log(0.04) + (std::log(1.2) - std::log(0.04)) * (iw / 4294967296.0));
            if ((iw & 15) == 3 && !pool.empty() && pool[iw % pool.size()] > 0.05) s.interval = pool[iw % pool.size()];     // so that some multiple coincides with another time
            r.i = 9; s.act = decodeAction(r); if (s.kind == 3) s.act = Action();
            if (s.act.kind == Action::Terminate) s.act.kind = Action::None;
            { std::vector<double> pt = evsys::periodicTimes(s.interval, c.t0, c.T); for (size_t i = 0; i < pt.size() && i < 4; ++i) pool.push_back(pt[i]); }
            c.scheds.push_back(s);
        } else {
            if (nRep >= 5) continue;
            double x = clampIn(place(r, nullptr, nullptr)); if (x > c.t0 && x < c.T) { c.reports.push_back(x); pool.push_back(x); nRep++; }
        }
    }
    std::sort(c.reports.begin(), c.reports.end()); c.reports.erase(std::unique(c.reports.begin(), c.reports.end()), c.reports.end());
    c.reports.push_back(c.T);
    return c;
}

// everything that lives for one simulation
struct Sim {
    const Case& c; std::vector<Wit> wits;     // wits with step-end placements resolved
    anasys::AnaSystem sys; evsys::Log log; evsys::Shared sh; std::unique_ptr<evsys::DiscreteVar> dv;
    std::unique_ptr<schedsub::ScheduleSubsystem> custom;    // second owner of scheduled events / reports (subsystem index 1, after the default subsystem)
    std::unique_ptr<Integrator> integ; anasys::Solution sol; double modelDv = 0.25;
    Sim(const Case& c, const std::vector<Wit>& w) : c(c), wits(w), sys(c.spec), sol(c.spec) {
        sys.setDefaultTimeScale(c.timescale);
        dv.reset(new evsys::DiscreteVar(sys.updDefaultSubsystem(), Stage::Dynamics, 0.25));
        sh.log = &log; sh.dv = dv.get();
        // registration order is interleaved on purpose (handlers/reporters of the different kinds are kept in separate lists by the System)
        for (size_t i = 0; i < wits.size(); ++i) { if (wits[i].reporter) sys.addEventReporter(new evsys::WitReporter(wits[i], (int)i, &sh)); else sys.addEventHandler(new evsys::WitHandler(wits[i], (int)i, &sh, c.witAct[i])); }
        { std::vector<schedsub::Item> items;
          for (size_t i = 0; i < c.scheds.size(); ++i) if (c.scheds[i].owner == 1) { schedsub::Item it; it.reporter = c.scheds[i].kind == 2; it.times = c.scheds[i].times; it.logId = (int)i; it.act = c.scheds[i].act; items.push_back(it); }
          if (!items.empty()) custom.reset(new schedsub::ScheduleSubsystem(sys, items, &sh)); }
        for (size_t i = 0; i < c.scheds.size(); ++i) { const Sched& s = c.scheds[i];
            if (s.owner == 1) continue;
            if (s.kind == 0) sys.addEventHandler(new evsys::ListHandler(s.times, (int)i, &sh, s.act)); else if (s.kind == 1) sys.addEventHandler(new evsys::PerHandler(s.interval, (int)i, &sh, s.act));
            else if (s.kind == 2) sys.addEventReporter(new evsys::ListReporter(s.times, (int)i, &sh)); else sys.addEventReporter(new evsys::PerReporter(s.interval, (int)i, &sh)); }
        integ = makeInteg(c.integ, sys, c.stepCtl ? c.h : 0.01);
        if (c.accSet) integ->setAccuracy(c.acc);
        integ->setAllowInterpolation(c.interp);
        if (c.finalSet) integ->setFinalTime(c.T);
        if (c.infNorm) integ->setUseInfinityNorm(true);
        if (c.integ != 6) { if (c.stepCtl == 1) integ->setMaximumStepSize(c.h); else if (c.stepCtl == 2) integ->setFixedStepSize(c.h); }
    }
};

struct Judge {   // the oracle state shared by both driving modes
    pbt::Ctx* ctx; const Case& c; Sim& S; bool on; bool judgeState; size_t seen = 0; double lastRecT = -Inf; bool terminated = false; double tTerm = Inf; double worstState = 0;
    int modifiedCalls = 0; std::set<int> trigMasks; int trigCalls = 0;
    Judge(pbt::Ctx* ctx, const Case& c, Sim& S, bool on) : ctx(ctx), c(c), S(S), on(on) {
        // returned states are compared with the closed form only where the integration error is small and bounded by
        // construction: error-controlled, order >= 2, accuracy <= 1e-4, no forced step size
        // (CPodes excluded: its global error at a given accuracy is C20's subject and reaches 30% of the solution scale here)
        judgeState = c.accSet && c.acc <= 1e-4 && c.stepCtl != 2 && c.integ != 5 && c.integ != 6 && c.integ != 7 && !c.cpodes();
    }
    double tol() const { return c.cpodes() ? StateTolCPodes : StateTol; }
    // failures are collected here and reported by property() (a TimeStepper-mode case that matches the listed site
    // report-inside-event-window is excluded as a whole, whatever the oracle said)
    std::string failMsg; bool stoppedKnown = false; bool excl = true;
    bool fail(const std::string& m) { if (on && failMsg.empty()) failMsg = std::string(integName(c.integ)) + (c.tsMode ? " [TimeStepper] " : " [direct] ") + m; return false; }
    // Site predicate of known finding report-inside-event-window, TimeStepper mode (windows are not observable): some triggered
    // call at time th (= tHigh) has a scheduled-report time r with th - W < r < th, W the localisation requirement of that witness.
    bool reportInsideSomeWindow() const {
        std::vector<double> rt;
        for (auto& s : c.scheds) { if (s.kind == 2) rt.insert(rt.end(), s.times.begin(), s.times.end()); else if (s.kind == 3) { std::vector<double> p = evsys::periodicTimes(s.interval, c.t0, c.T); rt.insert(rt.end(), p.begin(), p.end()); } }
        if (rt.empty()) return false;
        for (auto& r : S.log.recs) if (r.source == evsys::TrigHandler || r.source == evsys::TrigReporter) {
            const double W = requiredWindow(S.wits[r.id], r.t + 1) * (1 + 1e-9);
            for (double x : rt) if (x < r.t && x > r.t - W) return true;
        }
        return false;
    }
    double stateErr(const std::vector<double>& y, double t) {
        std::vector<double> ye = S.sol.eval(t); double e = 0, sc = std::max(1.0, S.sol.scale(t));
        for (size_t i = 0; i < y.size(); ++i) e = std::max(e, std::abs(y[i] - ye[i]) / sc);
        return e;
    }
    bool checkState(const State& s, const char* what) {
        if (!on) return true;
        double e = stateErr(evsys::yOf(s), s.getTime()); worstState = std::max(worstState, e);
        static const bool calib = getenv("C22_CALIB") != nullptr;
        if (judgeState && !calib && !(e <= tol())) return fail(std::string(what) + " at t=" + pbt::str(s.getTime()) + " differs from the analytic solution (restarted from the handler-produced state) by " + pbt::str(e) + " (scaled), tolerance " + pbt::str(tol()));
        double d = S.dv->getValue(s);
        if (d != S.modelDv) return fail(std::string(what) + " at t=" + pbt::str(s.getTime()) + ": discrete variable is " + pbt::str(d) + " but the handlers last set it to " + pbt::str(S.modelDv));
        return true;
    }
    // process the log records appended since the last call; expectT: the time every one of them must carry (NaN = unknown)
    bool absorb(double expectT, const char* where) {
        const std::vector<double>* prevAfter = nullptr; double prevT = 0; bool prevHandler = false;
        for (; seen < S.log.recs.size(); ++seen) {
            const evsys::Rec& r = S.log.recs[seen];
            const bool isHandler = r.source <= evsys::PeriodicHandler;
            if (!on) { if (isHandler) { S.sol.restart(r.t, r.yAfter); S.modelDv = r.dvAfter; } if (isHandler && actOf(r).kind == Action::Terminate && !terminated) { terminated = true; tTerm = r.t; } continue; }
            if (expectT == expectT && r.t != expectT) return fail(std::string(where) + ": handler/reporter called with state time " + pbt::str(r.t) + ", expected " + pbt::str(expectT));
            if (r.t < lastRecT) return fail("handler/reporter calls out of time order: " + pbt::str(r.t) + " after " + pbt::str(lastRecT));
            if (terminated && r.t > tTerm) return fail("handler/reporter invoked at t=" + pbt::str(r.t) + " after a handler requested termination at t=" + pbt::str(tTerm));
            lastRecT = r.t;
            // handlers of one dispatch are chained: each sees exactly what the previous one produced
            if (prevAfter && prevHandler && prevT == r.t && *prevAfter != r.yBefore && sameDispatch(seen)) return fail("a handler did not receive the state produced by the previous handler of the same dispatch at t=" + pbt::str(r.t));
            if (r.dvBefore != S.modelDv) return fail("handler at t=" + pbt::str(r.t) + " saw discrete variable " + pbt::str(r.dvBefore) + ", last set to " + pbt::str(S.modelDv));
            double e = stateErr(r.yBefore, r.t); worstState = std::max(worstState, e);
            static const bool calib = getenv("C22_CALIB") != nullptr;
            if (judgeState && !calib && !(e <= tol())) return fail("state handed to a handler/reporter at t=" + pbt::str(r.t) + " differs from the analytic solution by " + pbt::str(e) + " (scaled), tolerance " + pbt::str(tol()));
            if (isHandler) {
                const Action& a = actOf(r);
                if (a.modifiesContinuous() || a.kind == Action::SetDiscrete) modifiedCalls++;
                if (a.modifiesContinuous()) S.sol.restart(r.t, r.yAfter);
                S.modelDv = r.dvAfter;
                if (a.kind == Action::Terminate && !terminated) { terminated = true; tTerm = r.t; }
                ctx->label(std::string("action:") + a.describe().substr(0, a.describe().find('(')));
            }
            if (r.source == evsys::TrigHandler || r.source == evsys::TrigReporter) { trigCalls++; const Wit& w = S.wits[r.id]; trigMasks.insert((w.rising ? 1 : 0) | (w.falling ? 2 : 0) | (w.kind << 2) | ((w.slope < 0) << 3)); }
            prevAfter = &r.yAfter; prevT = r.t; prevHandler = isHandler;
        }
        return true;
    }
    bool sameDispatch(size_t) const { return true; }
    const Action& actOf(const evsys::Rec& r) const { static const Action none; if (r.source == evsys::TrigHandler) return c.witAct[r.id]; if (r.source == evsys::SchedHandler || r.source == evsys::PeriodicHandler) return c.scheds[r.id].act; return none; }

    // localisation requirement documented in findEventCandidates: max(accuracy*timescale*window, MinWindow)
    double requiredWindow(const Wit& w, double tAdv) const { return std::max(S.integ->getAccuracyInUse() * c.timescale * w.window, SignificantReal * std::max(1.0, tAdv)); }

    // ---- final judgement of the call log against the exactly known schedule (both modes)
    bool judgeLog(double tEnd) {
        const double tStop = terminated ? tTerm : tEnd;
        // (1) scheduled lists and periodic sources: exactly their times, bitwise, once each, in order
        for (size_t i = 0; i < c.scheds.size(); ++i) {
            const Sched& s = c.scheds[i]; int src = s.kind == 0 ? evsys::SchedHandler : s.kind == 1 ? evsys::PeriodicHandler : s.kind == 2 ? evsys::SchedReporter : evsys::PeriodicReporter;
            std::vector<double> expect = (s.kind == 0 || s.kind == 2) ? s.times : evsys::periodicTimes(s.interval, c.t0, c.T), got;
            for (auto& r : S.log.recs) if (r.source == src && r.id == (int)i) got.push_back(r.t);
            // known finding scheduled-event-merge-never-clears-ids: System::Guts::calcTimeOfNextScheduledEventImpl / ...ReportImpl merge the
            // subsystems' answers with "if (time <= tNext) { tNext = time; if (time < tNext) ids.clear(); ...}" -- the assignment precedes the
            // test, so the ids of an earlier-indexed subsystem whose next time is LATER are never dropped and its handlers/reporters are
            // dispatched at the later-indexed subsystem's earlier time. Site predicate: a schedule owned by the DefaultSystemSubsystem
            // (index 0) is invoked at a time that is not its own but is a scheduled time of the same class (event / report) owned by
            // the user-written subsystem (index 1); exactly those extra calls are dropped from the judgement.
            if (s.owner == 0 && S.custom) {
                std::vector<double> kept;
                for (double x : got) {
                    bool own = std::find(expect.begin(), expect.end(), x) != expect.end(), customTime = false;
                    for (auto& o : c.scheds) if (o.owner == 1 && (o.kind >= 2) == (s.kind >= 2) && std::find(o.times.begin(), o.times.end(), x) != o.times.end()) customTime = true;
                    if (!own && customTime && excl && ctx->known("scheduled-event-merge-never-clears-ids")) { ctx->label("excluded:scheduled-event-merge-never-clears-ids"); continue; }
                    kept.push_back(x);
                }
                got.swap(kept);
            }
            size_t gi = 0;
            for (double x : expect) {
                if (x < c.t0 || x > tStop) continue;
                if (gi < got.size() && got[gi] < x) return fail(std::string(s.kind <= 1 ? "scheduled handler " : "scheduled reporter ") + std::to_string(i) + (s.owner == 1 ? " (custom subsystem)" : "") + ": invoked at t=" + pbt::str(got[gi]) + " which is not one of its scheduled times (its next scheduled time is " + pbt::str(x) + ")");
                bool have = gi < got.size() && got[gi] == x;
                if (have) { gi++; continue; }
                if (x == tStop) continue;    // an event exactly at the end of the last request (or at the termination time) belongs to the next request: optional
                return fail(std::string(s.kind <= 1 ? "scheduled handler " : "scheduled reporter ") + std::to_string(i) + (s.kind % 2 ? " (periodic, interval " + pbt::str(s.interval) + ")" : " (list)") + ": not invoked at its time " + pbt::str(x)
                            + (gi < got.size() ? "; next recorded call at " + pbt::str(got[gi]) : "; no further calls") + " (run ended at " + pbt::str(tStop) + ")");
            }
            if (gi < got.size()) return fail(std::string(s.kind <= 1 ? "scheduled handler " : "scheduled reporter ") + std::to_string(i) + ": invoked at t=" + pbt::str(got[gi]) + " which is not one of its scheduled times (or a repeated call)");
        }
        // (2) triggered sources
        for (size_t i = 0; i < S.wits.size(); ++i) {
            const Wit& w = S.wits[i]; int src = w.reporter ? evsys::TrigReporter : evsys::TrigHandler;
            std::vector<double> got; for (auto& r : S.log.recs) if (r.source == src && r.id == (int)i) got.push_back(r.t);
            std::vector<evsys::Cross> all = evsys::crossings(w, c.t0 - 1, c.T + 1), mon; for (auto& x : all) if (evsys::monitored(w, x.dir)) mon.push_back(x);
            // soundness: every call at tHigh has a monitored crossing in (tHigh - W, tHigh]; distinct calls -> distinct crossings
            double lastUsed = -Inf;
            for (double th : got) {
                const double W = requiredWindow(w, th + 1) * (1 + 1e-9) + (w.kind == Wit::Sine ? 1e-12 * std::max(1.0, th) : 0.0);
                bool ok = false;
                for (auto& x : mon) { if (x.t <= lastUsed) continue; if (x.t > th + (w.kind == Wit::Sine ? 1e-12 * std::max(1.0, th) : 0.0)) break; if (x.t > th - W) { ok = true; lastUsed = x.t; break; } }
                if (!ok) return fail("triggered " + std::string(w.reporter ? "reporter " : "handler ") + std::to_string(i) + " {" + w.describe() + "} invoked at t=" + pbt::str(th) + " but no (new) crossing in a monitored direction lies within the localisation window " + pbt::str(W) + " before it");
            }
            // completeness for monotone witnesses (can never come and go): exactly one call per monitored crossing in (t0, tStop)
            bool complete = w.kind == Wit::Linear || shortSteps();
            if (complete) {
                size_t gi = 0;
                for (auto& x : mon) {
                    if (!(x.t > c.t0)) continue;
                    const double W = requiredWindow(w, x.t + 1) * (1 + 1e-9) + 1e-12;
                    if (terminated ? x.t + W >= tTerm : x.t > tEnd) break;
                    if (w.kind == Wit::Sine && (x.t - c.t0 < 1e-9 || tEnd - x.t < 1e-9)) { if (gi < got.size() && std::abs(got[gi] - x.t) <= W) gi++; continue; }   // rounding of the crossing time at the ends of the run: either way
                    if (gi < got.size() && got[gi] >= x.t - (w.kind == Wit::Sine ? 1e-12 : 0) && got[gi] <= x.t + W) { gi++; continue; }
                    // known finding cpodes-root-missed-after-zero-restart: when CPODES (re)starts at a time where some trigger is
                    // EXACTLY zero (cpRcheck1), it moves the start of its root search forward by 10% of the first step, so a crossing
                    // of another trigger inside that stretch is never seen. Site predicate: CPodes, the missed crossing x follows a
                    // (re)start time tr (initial time, or a handler call that modified the state) at which some witness evaluates to
                    // exactly 0, with x - tr <= 0.1 (10% of any step that can occur here).
                    if (c.cpodes()) {
                        std::vector<double> restarts(1, c.t0); bool site = false;
                        for (auto& r : S.log.recs) if (r.source <= evsys::PeriodicHandler) { const Action& a = actOf(r); if (a.modifiesContinuous() || a.kind == Action::SetDiscrete) restarts.push_back(r.t); }
                        for (double tr : restarts) if (tr < x.t && x.t - tr <= 0.1) for (auto& w2 : S.wits) if (w2.value(tr) == 0) site = true;
                        if (site && excl && ctx->known("cpodes-root-missed-after-zero-restart")) { ctx->label("excluded:cpodes-root-missed-after-zero-restart"); continue; }
                    }
                    return fail("triggered " + std::string(w.reporter ? "reporter " : "handler ") + std::to_string(i) + " {" + w.describe() + "}: crossing at t=" + pbt::str(x.t) + " (" + (x.dir > 0 ? "rising" : "falling") + ") was never handled"
                                + (gi < got.size() ? "; next recorded call at " + pbt::str(got[gi]) : "") + " (run ended at " + pbt::str(tStop) + ")");
                }
            }
            if (!evsys::monitored(w, +1) && !evsys::monitored(w, -1) && !got.empty()) return fail("witness with no monitored direction was triggered");
        }
        return true;
    }
    // every step <= 0.9 * (half period of the fastest sine witness): no witness can come and go within one step
    bool shortSteps() const {
        if (c.cpodes()) return false;
        if (!(c.stepCtl != 0 || c.integ == 6)) return false;
        double hEff = (c.integ == 6 && c.stepCtl == 0) ? 0.01 : c.h, om = 0;
        for (auto& w : S.wits) if (w.kind == Wit::Sine) om = std::max(om, std::abs(w.omega));
        return om == 0 || hEff * 1.002 < 0.9 * 3.141592653589793 / om;
    }
};

// next scheduled time according to the documented schedule (model of calcTimeOfNextScheduledEvent/Report)
double modelNext(const Case& c, bool reporters, double now, bool include) {
    double best = Inf;
    for (auto& s : c.scheds) {
        if ((s.kind >= 2) != reporters) continue;
        double x;
        if (s.kind % 2 == 0) x = evsys::nextOf(s.times, now, include);
        else { long long k = (long long)std::floor(now / s.interval) - 1; for (;; ++k) { x = (double)k * s.interval; if (x > now || (include && x == now)) break; } }
        best = std::min(best, x);
    }
    return best;
}

// ---- mode A: the TimeStepper loop replayed by the harness around Integrator::stepTo, every return judged.
// Returns false on violation. advOut (optional) collects the advanced times of all internal steps.
bool runDirect(const Case& c, Sim& S, Judge& J, pbt::Ctx& ctx, bool on, std::vector<double>* advOut, double& tEndOut) {
    Integrator& integ = *S.integ; const bool cp = c.cpodes();
    integ.setReturnEveryInternalStep(true);
    State s0 = S.sys.initialState();
    try { integ.initialize(s0); } catch (const std::exception& e) { if (on) { ctx.reject("initialize-failed"); } return false; }
    // event id -> witness, found through the public dispatch: handle one id on a scratch state and see who answers
    std::map<int, int> idToWit;
    {
        Array_<EventTriggerInfo> infos; S.sys.calcEventTriggerInfo(integ.getAdvancedState(), infos);
        if (on && (int)infos.size() != (int)S.wits.size()) return J.fail("calcEventTriggerInfo returned " + std::to_string(infos.size()) + " triggers for " + std::to_string(S.wits.size()) + " witnesses");
        for (int k = 0; k < (int)infos.size(); ++k) {
            State scratch = integ.getAdvancedState(); size_t mark = S.log.recs.size();
            Array_<EventId> one; one.push_back(infos[k].getEventId()); HandleEventsOptions ho; HandleEventsResults hr;
            S.sys.handleEvents(scratch, Event::Cause::Triggered, one, ho, hr);
            if (on && S.log.recs.size() != mark + 1) return J.fail("dispatching one triggered event id invoked " + std::to_string(S.log.recs.size() - mark) + " handlers");
            if (S.log.recs.size() > mark) {
                int wi = S.log.recs[mark].id; idToWit[(int)infos[k].getEventId()] = wi; const Wit& w = S.wits[wi];
                if (on && (infos[k].shouldTriggerOnRisingSignTransition() != w.rising || infos[k].shouldTriggerOnFallingSignTransition() != w.falling || infos[k].getRequiredLocalizationTimeWindow() != w.window))
                    return J.fail("EventTriggerInfo of witness " + std::to_string(wi) + " does not carry the handler's mask/window");
                // trigger value slot k must be this witness's function
                if (on && integ.getAdvancedState().getEventTriggers()[k] != w.value(integ.getAdvancedState().getTime())) return J.fail("event trigger slot " + std::to_string(k) + " does not hold the value of the witness its EventTriggerInfo names");
            }
            S.log.recs.resize(mark);
        }
    }
    if (on && c.accSet && integ.getAccuracyInUse() != c.acc) return J.fail("getAccuracyInUse() != the accuracy set");
    double lastEventTime = -Inf, lastReportTime = -Inf;
    double aStart = integ.getAdvancedTime();   // start of the internal step being observed
    bool stepOpen = false;                      // an internal step (aStart, aEnd] completed but not yet classified (event / no event)
    double aEnd = aStart, t1r = aStart; double prevHigh = -Inf; double tPrev = integ.getTime();
    double reportAtStep = Inf;                  // the report time the integrator was given in the call that took the current step
    long guard = 0; bool over = false;
    auto W = [&](size_t i, double t) { return S.wits[i].value(t); };
    for (size_t ri = 0; ri < c.reports.size() && !over; ++ri) {
        const double time = c.reports[ri];
        while (!integ.isSimulationOver()) {
            if (++guard > 400000) { if (on) ctx.reject("too-many-steps"); return false; }
            const double now = integ.getTime();
            S.sys.realize(integ.getState(), Stage::Time); S.sys.realize(integ.getAdvancedState(), Stage::Time);
            Real nextEv = Inf, nextRep = Inf; Array_<EventId> evIds, repIds;
            S.sys.calcTimeOfNextScheduledEvent(integ.getState(), nextEv, evIds, lastEventTime != now);
            S.sys.calcTimeOfNextScheduledReport(integ.getState(), nextRep, repIds, lastReportTime != now);
            if (on) {
                double me = modelNext(c, false, now, lastEventTime != now), mr = modelNext(c, true, now, lastReportTime != now);
                if (nextEv != me) return J.fail("calcTimeOfNextScheduledEvent at t=" + pbt::str(now) + " gave " + pbt::str((double)nextEv) + ", the schedules say " + pbt::str(me));
                if (nextRep != mr) return J.fail("calcTimeOfNextScheduledReport at t=" + pbt::str(now) + " gave " + pbt::str((double)nextRep) + ", the schedules say " + pbt::str(mr));
            }
            const double reportTime = std::min((double)nextRep, time), eventTime = std::min((double)nextEv, time);
            const double taBefore = integ.getAdvancedTime();
            St st;
            try { st = integ.stepTo(reportTime, eventTime); }
            catch (const std::exception& e) {
                std::string what = e.what();
                if (cp && what.find("CPodes::step() returned an error") != std::string::npos) { if (on) { ctx.label("cpodes-step-failed"); ctx.reject("cpodes-step-failed"); } return false; }
                if (on) J.fail("stepTo(report=" + pbt::str(reportTime) + ", scheduled=" + pbt::str(eventTime) + ") threw: " + what.substr(0, 300)); return false;
            }
            const double tt = integ.getTime(), ta = integ.getAdvancedTime();
            if (on && ctx.wantDesc && guard < 400) ctx.desc << "  stepTo(" << pbt::str(reportTime) << "," << pbt::str(eventTime) << ") -> " << stName(st) << " t=" << pbt::str(tt) << " ta=" << pbt::str(ta) << "\n";
            if (on) ctx.label(std::string("st:") + stName(st));
            if (on && tt < tPrev) return J.fail("returned time decreased");
            // (CPodes serves reports by interpolating back from internal steps that already passed the bound: C19's known finding
            //  cpodes-advanced-passes-scheduled; here only its event windows are held to the bound)
            if (on && ta > eventTime && (!cp || st == Integrator::ReachedEventTrigger)) return J.fail(std::string(stName(st)) + ": advanced time " + pbt::str(ta) + " is beyond the scheduled-event/request bound " + pbt::str(eventTime) + " passed to stepTo");
            tPrev = tt;
            // ---- internal step bookkeeping
            if (ta != taBefore) {
                if (on && stepOpen && !cp) return J.fail("internal step ending at " + pbt::str(aEnd) + " was never reported although return-every-step is on");
                aStart = taBefore; aEnd = ta; stepOpen = true; t1r = aStart + integ.getPreviousStepSizeTaken(); reportAtStep = reportTime;
                if (advOut) advOut->push_back(ta);
            }
            if (on && !J.checkState(integ.getState(), "returned state")) return false;
            bool shouldTerminate = false; Stage lowestModified = Stage::Report; bool doReinit = true;
            if (st == Integrator::ReachedEventTrigger) {
                const Vec2 win = integ.getEventWindow(); const double tLow = win[0], tHigh = win[1];
                const Array_<EventId>& ids = integ.getTriggeredEvents(); const Array_<Real>& est = integ.getEstimatedEventTimes(); const Array_<Event::Trigger>& trans = integ.getEventTransitionsSeen();
                std::set<int> listed;
                if (on) {
                    ctx.label("hit:trigger");
                    std::ostringstream hd; hd.precision(17); hd << "ReachedEventTrigger window (" << tLow << "," << tHigh << "] in step (" << aStart << "," << t1r << "~]: ";
                    if (tt != tLow) return J.fail(hd.str() + "returned (before-)state time " + pbt::str(tt) + " is not tLow");
                    if (ta != tHigh) return J.fail(hd.str() + "advanced time " + pbt::str(ta) + " is not tHigh");
                    if (!integ.isStateInterpolated()) return J.fail(hd.str() + "before-state not flagged interpolated");
                    if (!(tLow < tHigh)) return J.fail(hd.str() + "empty window");
                    if (tLow < prevHigh) return J.fail(hd.str() + "window starts before the end of the previous event window " + pbt::str(prevHigh) + " (events out of time order)");
                    if (!cp && (tLow < aStart || !stepOpen)) return J.fail(hd.str() + "window not inside the internal step just taken");
                    if (ids.empty()) return J.fail(hd.str() + "no triggered events listed");
                    if (est.size() != ids.size() || trans.size() != ids.size()) return J.fail(hd.str() + "triggered ids / estimated times / transitions arrays differ in length");
                    double narrow = Inf;
                    for (int j = 0; j < (int)ids.size(); ++j) {
                        auto it = idToWit.find((int)ids[j]); if (it == idToWit.end()) return J.fail(hd.str() + "unknown event id listed");
                        const int wi = it->second; const Wit& w = S.wits[wi];
                        if (!listed.insert(wi).second) return J.fail(hd.str() + "event listed twice");
                        const int tr = evsys::seenTransition(w, tLow, tHigh);
                        if (tr == 0) return J.fail(hd.str() + "witness " + std::to_string(wi) + " {" + w.describe() + "} is listed but its trigger has no sign change in a monitored direction over the window: value " + pbt::str(W(wi, tLow)) + " at tLow, " + pbt::str(W(wi, tHigh)) + " at tHigh");
                        const bool repRising = (trans[j] & Event::Rising) != 0, repFalling = (trans[j] & Event::Falling) != 0;
                        if ((tr > 0) != repRising || (tr < 0) != repFalling) return J.fail(hd.str() + "witness " + std::to_string(wi) + " {" + w.describe() + "}: reported transition " + Event::eventTriggerString(trans[j]) + " does not match the actual " + (tr > 0 ? "rising" : "falling") + " crossing");
                        // (a window only one or two ulps wide has no representable interior point: the midpoint estimate then rounds to tLow;
                        //  observed with two periodic schedules whose multiples differ by 1 ulp -- accepted as rounding, see notes)
                        const bool ulpWindow = tLow + (tHigh - tLow) / 2 == tLow;
                        if (!((est[j] > tLow || (ulpWindow && est[j] == tLow)) && est[j] <= tHigh)) return J.fail(hd.str() + "estimated event time " + pbt::str((double)est[j]) + " outside (tLow,tHigh]");
                        if (ulpWindow) ctx.label("hit:one-ulp-window");
                        if (j > 0 && est[j] < est[j - 1]) return J.fail(hd.str() + "triggered events not listed in order of estimated occurrence");
                        narrow = std::min(narrow, J.requiredWindow(w, std::max(t1r, tHigh) * (1 + 1e-9)));
                    }
                    if (!(tHigh - tLow <= narrow * (1 + 1e-12))) return J.fail(hd.str() + "window width " + pbt::str(tHigh - tLow) + " exceeds the localisation requirement " + pbt::str(narrow) + " = max(accuracy*timescale*window, MinWindow) of the listed events");
                    // the report the integrator was heading for when it took and localised this step must stay outside the open window (the
                    // source splits the localisation at tReport for exactly this purpose)
                    if (!cp && reportAtStep > aStart && reportAtStep < t1r && (tLow == reportAtStep || tHigh == reportAtStep)) ctx.label("hit:window-split-at-pending-report");
                    if (!cp && reportAtStep > tLow && reportAtStep < tHigh)
                        return J.fail(hd.str() + "the window strictly contains the report time " + pbt::str(reportAtStep) + " that was pending when the step was taken: the report can only be delivered after the event (time goes backwards for the caller)");
                    // known finding report-inside-event-window, as narrow as the finding: a LATER scheduled report (not the one pending when the
                    // step was taken -- that one was judged just above) lies strictly inside the window
                    { double rIn = modelNext(c, true, tLow, false);
                      if (rIn > tLow && rIn < tHigh) { ctx.label("hit:report-inside-event-window"); if (!cp && J.excl && rIn != reportAtStep && ctx.known("report-inside-event-window")) { ctx.label("excluded:report-inside-event-window"); J.stoppedKnown = true; return true; } } }
                    if (listed.size() >= 2) ctx.label("hit:simultaneous");
                    // completeness within this (truncated) step, for witnesses whose behaviour over the whole ODE step (aStart, t1] is unambiguous
                    if (!cp) for (size_t i = 0; i < S.wits.size(); ++i) {
                        const Wit& w = S.wits[i];
                        std::vector<evsys::Cross> cr = evsys::crossings(w, aStart, t1r + 1e-9 * std::max(1.0, t1r));
                        bool ambiguous = false; for (auto& x : cr) if (std::abs(x.t - t1r) <= 1e-9 * std::max(1.0, t1r)) ambiguous = true;
                        if (w.kind == Wit::Sine) for (auto& x : cr) if (std::abs(x.t - tLow) <= 1e-12 * std::max(1.0, tLow) || std::abs(x.t - tHigh) <= 1e-12 * std::max(1.0, tHigh) || std::abs(x.t - aStart) <= 1e-12 * std::max(1.0, aStart)) ambiguous = true;
                        if (ambiguous) { // the linear witness is still exact on the window ends
                            if (w.kind == Wit::Linear && evsys::seenTransition(w, aStart, tLow) != 0) return J.fail(hd.str() + "witness " + std::to_string(i) + " {" + w.describe() + "} changed sign in a monitored direction before tLow within this step and was passed over");
                            if (w.kind == Wit::Linear && (evsys::seenTransition(w, tLow, tHigh) != 0) != (listed.count((int)i) != 0)) return J.fail(hd.str() + "monotone witness " + std::to_string(i) + " {" + w.describe() + "} crosses inside the window but is not listed (or vice versa)");
                            continue; }
                        if (cr.size() != 1 || !evsys::monitored(w, cr[0].dir)) continue;       // multi-crossing within one step: the documented exemption
                        // a step that STARTS on an exact zero of the witness (right after its own event) and contains one more zero is the
                        // same exemption: an excursion that came and went within the closed step [a0,t1] ("transitions away from zero are not reported")
                        if (sgn(W(i, aStart)) == 0) { ctx.label("exempt:step-starts-on-zero-of-same-witness"); continue; }
                        const bool inWin = w.kind == Wit::Linear ? evsys::seenTransition(w, tLow, tHigh) != 0 : (cr[0].t > tLow && cr[0].t <= tHigh);
                        const bool before = w.kind == Wit::Linear ? evsys::seenTransition(w, aStart, tLow) != 0 : (cr[0].t <= tLow);
                        if (before) return J.fail(hd.str() + "witness " + std::to_string(i) + " {" + w.describe() + "} has its only crossing of this step at " + pbt::str(cr[0].t) + " <= tLow: an earlier persisting crossing was skipped (events not in time order)");
                        if (inWin != (listed.count((int)i) != 0)) return J.fail(hd.str() + "witness " + std::to_string(i) + " {" + w.describe() + "} with a single crossing at " + pbt::str(cr[0].t) + (inWin ? " inside the window is not listed" : " outside the window is listed"));
                    }
                    for (int wi : listed) { const Wit& w = S.wits[wi]; if (W(wi, tHigh) == 0) ctx.label("hit:window-ends-on-exact-zero"); if (w.kind == Wit::Linear && W(wi, t1r) == 0) ctx.label("hit:zero-at-step-end");
                        if (c.witPlace[wi] != "random") ctx.label("hit:trigger-placed-" + c.witPlace[wi]); }
                }
                prevHigh = tHigh; stepOpen = false; aStart = ta;
                size_t mark = S.log.recs.size();
                HandleEventsOptions ho(integ.getConstraintToleranceInUse()); HandleEventsResults hr;
                S.sys.handleEvents(integ.updAdvancedState(), Event::Cause::Triggered, ids, ho, hr);
                if (on) {
                    std::set<int> called; for (size_t k = mark; k < S.log.recs.size(); ++k) called.insert(S.log.recs[k].id);
                    if (called != listed || S.log.recs.size() - mark != listed.size()) return J.fail("handleEvents(Triggered) did not invoke exactly the listed handlers/reporters once each");
                }
                if (!J.absorb(tHigh, "triggered dispatch") && on) return false;
                lowestModified = hr.getLowestModifiedStage(); shouldTerminate = hr.getExitStatus() == HandleEventsResults::ShouldTerminate;
            } else {
                // any other return with the advanced state itself closes the open step as a NO-EVENT step
                if (stepOpen && tt == ta) {
                    if (on && !cp) for (size_t i = 0; i < S.wits.size(); ++i) {
                        const Wit& w = S.wits[i]; int tr = evsys::seenTransition(w, aStart, aEnd);
                        if (tr != 0) return J.fail("internal step (" + pbt::str(aStart) + "," + pbt::str(aEnd) + "] returned " + stName(st) + " without an event although witness " + std::to_string(i) + " {" + w.describe() + "} changes sign in a monitored direction across it: "
                                                   + pbt::str(W(i, aStart)) + " -> " + pbt::str(W(i, aEnd)));
                        if (evsys::transition(sgn(W(i, aStart)), sgn(W(i, aEnd))) != 0) ctx.label("hit:decoy-direction-crossed");
                    }
                    stepOpen = false; aStart = ta;
                }
                switch (st) {
                    case Integrator::ReachedStepLimit: case Integrator::StartOfContinuousInterval: doReinit = false; break;
                    case Integrator::ReachedReportTime:
                        doReinit = false;
                        if (on && tt != reportTime && !(c.finalSet && tt == c.T)) return J.fail("ReachedReportTime at t=" + pbt::str(tt) + " != report time " + pbt::str(reportTime));
                        if (tt >= nextRep) { S.sys.reportEvents(integ.getState(), Event::Cause::Scheduled, repIds); lastReportTime = tt; if (!J.absorb(nextRep, "scheduled report") && on) return false; }
                        break;
                    case Integrator::ReachedScheduledEvent: {
                        if (on && (tt != eventTime || ta != eventTime)) return J.fail("ReachedScheduledEvent at t=" + pbt::str(tt) + " (advanced " + pbt::str(ta) + ") != scheduled time " + pbt::str(eventTime));
                        if (on && integ.isStateInterpolated()) return J.fail("ReachedScheduledEvent with an interpolated state");
                        HandleEventsOptions ho(integ.getConstraintToleranceInUse()); HandleEventsResults hr;
                        S.sys.handleEvents(integ.updAdvancedState(), Event::Cause::Scheduled, evIds, ho, hr);
                        lastEventTime = tt; if (!J.absorb(eventTime, "scheduled dispatch") && on) return false;
                        lowestModified = hr.getLowestModifiedStage(); shouldTerminate = hr.getExitStatus() == HandleEventsResults::ShouldTerminate; break; }
                    case Integrator::TimeHasAdvanced: {
                        HandleEventsOptions ho(integ.getConstraintToleranceInUse()); HandleEventsResults hr;
                        S.sys.handleEvents(integ.updAdvancedState(), Event::Cause::TimeAdvanced, Array_<EventId>(), ho, hr);
                        lowestModified = hr.getLowestModifiedStage(); break; }
                    case Integrator::EndOfSimulation: {
                        HandleEventsOptions ho(integ.getConstraintToleranceInUse()); HandleEventsResults hr;
                        S.sys.handleEvents(integ.updAdvancedState(), Event::Cause::Termination, Array_<EventId>(), ho, hr);
                        lowestModified = hr.getLowestModifiedStage(); over = true; break; }
                    default: if (on) return J.fail("invalid status returned"); return false;
                }
                if (st == Integrator::ReachedReportTime && tt >= time) break;   // next chunk
            }
            if (doReinit) {
                integ.reinitialize(lowestModified, shouldTerminate);
                if (shouldTerminate) {
                    if (on && !integ.isSimulationOver()) return J.fail("isSimulationOver() false after reinitialize(shouldTerminate=true)");
                    if (on && integ.getTerminationReason() != Integrator::EventHandlerRequestedTermination) return J.fail("termination reason is not EventHandlerRequestedTermination");
                    over = true;
                }
            }
            if (over) break;
        }
        if (integ.isSimulationOver()) over = true;
    }
    tEndOut = integ.getTime();
    return true;
}

// ---- mode B: through TimeStepper
bool runTimeStepper(const Case& c, Sim& S, Judge& J, pbt::Ctx& ctx, double& tEndOut) {
    Integrator& integ = *S.integ; const bool cp = c.cpodes();
    TimeStepper ts(S.sys, integ); ts.setReportAllSignificantStates(c.reportAll);
    State s0 = S.sys.initialState();
    try { ts.initialize(s0); } catch (const std::exception& e) { ctx.reject("initialize-failed"); return false; }
    long guard = 0; int stuck = 0; double tPrev = integ.getTime(); bool over = false;
    for (size_t ri = 0; ri < c.reports.size() && !over; ++ri) {
        const double time = c.reports[ri];
        for (;;) {
            if (++guard > 400000) { ctx.reject("too-many-steps"); return false; }
            St st;
            try { st = ts.stepTo(time); }
            catch (const std::exception& e) {
                std::string what = e.what();
                if (cp && what.find("CPodes::step() returned an error") != std::string::npos) { ctx.label("cpodes-step-failed"); ctx.reject("cpodes-step-failed"); return false; }
                J.fail("TimeStepper::stepTo(" + pbt::str(time) + ") threw: " + what.substr(0, 300)); return false;
            }
            const double tt = integ.getTime();
            if (ctx.wantDesc && guard < 300) ctx.desc << "  ts.stepTo(" << pbt::str(time) << ") -> " << stName(st) << " t=" << pbt::str(tt) << "\n";
            ctx.label(std::string("st:") + stName(st));
            if (tt < tPrev) return J.fail("returned time decreased");
            if (tt > time) return J.fail("TimeStepper::stepTo(" + pbt::str(time) + ") returned at the later time " + pbt::str(tt));
            if (!J.absorb(NaN, "TimeStepper")) return false;
            if (!(J.terminated)) { if (!J.checkState(ts.getState(), "state returned by TimeStepper")) return false; }
            if (integ.isSimulationOver() || st == Integrator::EndOfSimulation) { over = true; break; }
            if (!c.reportAll && st == Integrator::ReachedReportTime && tt != time && !(c.finalSet && tt == c.T)) return J.fail("TimeStepper::stepTo(" + pbt::str(time) + ") returned ReachedReportTime at t=" + pbt::str(tt));
            if (tt >= time && st == Integrator::ReachedReportTime) break;
            if (tt == tPrev) { if (++stuck > 2000) return J.fail("TimeStepper makes no progress at t=" + pbt::str(tt) + " (2000 returns without advancing time)"); } else stuck = 0;
            tPrev = tt;
        }
    }
    if (J.terminated) {
        if (!integ.isSimulationOver()) return J.fail("a handler requested termination but the simulation is not over");
        if (integ.getTerminationReason() != Integrator::EventHandlerRequestedTermination) return J.fail("termination reason is not EventHandlerRequestedTermination");
    }
    tEndOut = integ.getTime();
    return true;
}

void describe(const Case& c, const std::vector<Wit>& wits, pbt::Ctx& ctx) {
    ctx.desc << "mode=" << (c.tsMode ? "TimeStepper" : "direct") << " integrator=" << integName(c.integ) << " acc=" << (c.accSet ? pbt::str(c.acc) : std::string("default")) << " interp=" << c.interp << " finalSet=" << c.finalSet
             << " reportAll=" << c.reportAll << " infNorm=" << c.infNorm << " stepCtl=" << (c.stepCtl == 0 ? "none" : c.stepCtl == 1 ? "max" : "fixed") << " h=" << pbt::str(c.h) << " t0=" << pbt::str(c.t0) << " T=" << pbt::str(c.T) << " timescale=" << c.timescale << "\n"
             << "system: " << c.spec.describe() << "\n";
    for (size_t i = 0; i < wits.size(); ++i) ctx.desc << "witness " << i << ": " << wits[i].describe() << " placed=" << c.witPlace[i] << " action=" << c.witAct[i].describe() << "\n";
    for (size_t i = 0; i < c.scheds.size(); ++i) { const Sched& s = c.scheds[i]; static const char* kn[] = {"list handler", "periodic handler", "list reporter", "periodic reporter"};
        ctx.desc << "scheduled " << i << ": " << kn[s.kind]; if (s.kind % 2) ctx.desc << " interval=" << pbt::str(s.interval); else { ctx.desc << " times="; for (double x : s.times) ctx.desc << pbt::str(x) << " "; } ctx.desc << " action=" << s.act.describe() << (s.owner == 1 ? " owner=custom-subsystem" : " owner=default-subsystem") << "\n"; }
    ctx.desc << "requests (chunk ends): "; for (double x : c.reports) ctx.desc << pbt::str(x) << " "; ctx.desc << "\n";
}

void judgeCase(const Case& c, pbt::Ctx& ctx, bool excl = true);
void property(const pbt::Tape& t, pbt::Ctx& ctx) {
    Case c = decode(t, ctx.isKnownListed("cpodes-exact-zero-ignores-direction"), ctx.isKnownListed("cpodes-event-window-passes-request"));
    for (int i = 0; i < c.exclZeroDir; ++i) if (ctx.known("cpodes-exact-zero-ignores-direction")) ctx.label("excluded:cpodes-exact-zero-ignores-direction");
    for (int i = 0; i < c.exclPassReq; ++i) if (ctx.known("cpodes-event-window-passes-request")) ctx.label("excluded:cpodes-event-window-passes-request");
    // known finding cpodes-mask-none-fires-rising: CPodesIntegratorRep::init maps a trigger that monitors NEITHER direction
    // (setTriggerOnRisingSignTransition(false) + setTriggerOnFallingSignTransition(false)) to CPODES root direction +1, so it
    // fires on rising crossings. Site predicate on the INPUT: CPodes and a witness with an empty mask; while listed, such a
    // witness is generated with mask "both" instead (counted).
    if (c.cpodes()) for (auto& w : c.wits) if (!w.rising && !w.falling && ctx.known("cpodes-mask-none-fires-rising")) { w.rising = w.falling = true; ctx.label("excluded:cpodes-mask-none-fires-rising"); }
    judgeCase(c, ctx);
}

// excl = false (directed reproducers): the site exclusions of listed findings are NOT applied
void judgeCase(const Case& c, pbt::Ctx& ctx, bool excl) {
    std::vector<Wit> wits = c.wits;
    // crossings placed exactly on internal step ends: learn the step ends from a dry run of the same case (deterministic)
    bool needDry = false; for (int se : c.witStepEnd) if (se >= 0) needDry = true;
    if (needDry) {
        std::vector<double> adv; Sim dry(c, wits); Judge jd(&ctx, c, dry, false); double te;
        runDirect(c, dry, jd, ctx, false, &adv, te);
        for (size_t i = 0; i < wits.size(); ++i) if (c.witStepEnd[i] >= 0) { if (!adv.empty()) wits[i].c = adv[c.witStepEnd[i] % adv.size()]; }
    }
    if (ctx.wantDesc) describe(c, wits, ctx);
    ctx.label(std::string("integ:") + integName(c.integ)); ctx.label(c.tsMode ? "mode:timestepper" : "mode:direct");
    if (c.wide) ctx.label("regime:wide-window");
    if (!c.interp) ctx.label("opt:nointerp"); if (c.finalSet) ctx.label("opt:final"); if (c.stepCtl == 1) ctx.label("opt:maxstep"); if (c.stepCtl == 2) ctx.label("opt:fixedstep");
    for (auto& w : wits) { ctx.label(w.reporter ? "src:triggered-reporter" : "src:triggered-handler"); ctx.label(w.kind == Wit::Linear ? "wit:linear" : "wit:sine"); ctx.label("wit:stage" + std::to_string(w.stage)); }
    for (auto& s : c.scheds) { static const char* kn[] = {"src:list-handler", "src:periodic-handler", "src:list-reporter", "src:periodic-reporter"}; ctx.label(kn[s.kind]); }

    {   // two owners of scheduled events / reports: the DefaultSystemSubsystem (index 0) and the user-written subsystem (index 1)
        for (int cls = 0; cls < 2; ++cls) {      // 0 events (handlers), 1 reports
            std::vector<double> dt, ct;           // all times in (t0, T] of the default-owned / custom-owned schedules of this class
            for (auto& s : c.scheds) { if ((s.kind >= 2) != (cls == 1)) continue; std::vector<double> tt = (s.kind % 2) ? evsys::periodicTimes(s.interval, c.t0, c.T) : s.times;
                for (double x : tt) if (x >= c.t0 && x <= c.T) (s.owner == 1 ? ct : dt).push_back(x); }
            if (ct.empty()) continue;
            ctx.label(cls == 0 ? "sched:custom-subsystem-events" : "sched:custom-subsystem-reports");
            if (dt.empty()) continue;
            ctx.label("sched:two-subsystems");
            std::sort(dt.begin(), dt.end()); std::sort(ct.begin(), ct.end());
            // at some query time the custom subsystem's next time is strictly earlier than the default subsystem's next time
            bool earlier = false, coincident = false;
            for (double x : ct) { double dn = evsys::nextOf(dt, x, true); if (dn == x) coincident = true; else if (dn < Inf) earlier = true; }
            if (earlier) ctx.label("sched:custom-earlier-than-default");
            if (coincident) ctx.label("sched:custom-coincident-with-default");
            { bool later = false; for (double x : dt) if (evsys::nextOf(ct, x, false) < Inf) later = true; if (later) ctx.label("sched:default-earlier-than-custom"); }
        }
    }
    Sim S(c, wits); Judge J(&ctx, c, S, true); J.excl = excl; double tEnd = c.t0; bool ok;
    if (c.tsMode) ok = runTimeStepper(c, S, J, ctx, tEnd);
    else ok = runDirect(c, S, J, ctx, true, nullptr, tEnd);
    if (ctx.isRejected) return;
    // known finding report-inside-event-window (AbstractIntegratorRep integrators, interpolation allowed): a scheduled report
    // time later than the one the integrator was stepping towards can fall strictly inside an event window (tLow,tHigh); the
    // TimeStepper then either delivers that report AFTER the handler ran at tHigh (from a state interpolated across the
    // handler's change) or, if the handler modified the state, skips it. Direct mode: dynamic site (window observed, history
    // stops being judged there); TimeStepper mode: predicate over the call log and the report schedule.
    // (TimeStepper mode cannot see windows; when the call log shows a report time just before a triggered call -- a cheap necessary
    //  condition -- the same case is replayed in direct mode, which takes the identical steps, and the case is excluded only if that
    //  replay reaches the narrow direct-mode site, i.e. a LATER report inside the window, not the one pending when the step was taken)
    if (excl && c.tsMode && c.interp && !c.cpodes() && J.reportInsideSomeWindow() && ctx.isKnownListed("report-inside-event-window")) {
        Case c2 = c; c2.tsMode = false; pbt::Ctx scratch; scratch.prop = ctx.prop; Sim S2(c2, wits); Judge J2(&scratch, c2, S2, true); double te2 = c.t0;
        runDirect(c2, S2, J2, scratch, true, nullptr, te2);
        if (J2.stoppedKnown && ctx.known("report-inside-event-window")) { ctx.label("excluded:report-inside-event-window"); return; }
    }
    if (J.stoppedKnown) return;
    if (ok && J.failMsg.empty() && !J.terminated && tEnd != c.T) J.fail("run ended at t=" + pbt::str(tEnd) + " instead of the requested final time " + pbt::str(c.T));
    if (ok && J.failMsg.empty()) J.judgeLog(tEnd);
    if (!J.failMsg.empty()) { ctx.fail(J.failMsg); return; }
    if (!ok) return;
    if (J.terminated) ctx.label("hit:terminated-by-handler");
    if (J.judgeState) ctx.label("state-vs-analytic-judged");
    if (J.shortSteps()) ctx.label("complete:short-steps");
    { static const bool calib = getenv("C22_CALIB") != nullptr; if (calib && J.judgeState) fprintf(stderr, "CAL %s %g\n", integName(c.integ), J.worstState); }
    if (J.trigCalls) ctx.label("hit:triggered-call");
    bool placed = false; for (size_t i = 0; i < wits.size(); ++i) if (c.witPlace[i] == "coincident" || c.witPlace[i] == "step-end" || c.witPlace[i] == "final-time") placed = true;
    ctx.nontrivial((J.trigCalls >= 2 && J.trigMasks.size() >= 2) || (placed && J.trigCalls >= 1) || J.modifiedCalls >= 1);
}

// hand-made cases for the directed reproducers
Case baseCase(int integ, bool tsMode, double T) {
    Case c; c.integ = integ; c.tsMode = tsMode; c.t0 = 0; c.T = T; c.reports = {T};
    anasys::Block b; b.pair = true; b.a = -0.5; b.w = 2; c.spec.blocks.push_back(b); anasys::Block b2; b2.pair = false; b2.a = -1; b2.w = 0; c.spec.blocks.push_back(b2);
    anasys::Osc o; o.omega = 2; c.spec.oscs.push_back(o); c.spec.z0 = {1, -0.5, 0.75}; c.spec.q0 = {1}; c.spec.u0 = {0}; c.spec.t0 = 0;
    return c;
}
void addWit(Case& c, int kind, double cc, double omega, bool rising, bool falling, int stepEnd = -1, const char* how = "random") {
    Wit w; w.kind = kind; w.c = cc; w.omega = omega; w.rising = rising; w.falling = falling; c.wits.push_back(w); c.witAct.push_back(Action()); c.witStepEnd.push_back(stepEnd); c.witPlace.push_back(how);
}

pbt::Config config() {
    pbt::Config c; c.prop = "C22"; c.K = 16; c.minUnits = 2; c.caseTimeoutSecs = 60;
    c.quick = {1000, 6000, 14, 25}; c.thorough = {6000, 40000, 16, 150};
    c.rule = "rapidcheck tape -> mode {direct Integrator::stepTo loop with return-every-step, TimeStepper (report-all on/off)} x integrator (RK Merson, RK3, RK2, RK Feldberg, Verlet, ExplicitEuler, SemiExplicitEuler, SemiExplicitEuler2, CPodes BDF/Adams) x options {accuracy 1e-2..1e-7 or default, interpolation on/off, final time, inf norm, max/fixed step 2e-3..0.2, time scale 0.01/0.1/1, t0 0..3, T 0.3..2.5} x analytic system (complex pair + real mode + oscillator) x up to 6 time-only witnesses s(t-c)/sin(om(t-c)) (masks both/rising/falling/none, windows 1e-4..1, declared stages Time..Acceleration, handler or reporter, crossing placed random / coincident with another time / on a step end learned by a dry run / at t0 / at T) x up to 4 scheduled-list or periodic handlers/reporters (in 1 case of 3 the list schedules may belong to a second, user-written Subsystem that owns up to 2 scheduled events and 2 scheduled reports next to the addEventHandler/addEventReporter ones, incl. coincident times) x up to 5 extra report times; handler actions none/scale z/kick u/set q/set discrete/terminate. Non-trivial: >= 2 triggered calls from witnesses with different masks/kinds, or a triggered call in a case with a crossing placed on another time/step end/final time, or a state-modifying handler invoked.";
    c.assumptions = {"witnesses are functions of time only, so their sign at any time the integrator reports is known exactly (same floating-point expression on both sides)",
                     "completeness is demanded on observed step boundaries: a trigger that comes and goes within one internal step may be missed (documented in takeOneStep)",
                     "the ODE step end t1 of a truncated (event) step is reconstructed from getPreviousStepSizeTaken(); crossings within 1e-9 of it are treated as ambiguous",
                     "CPodes: step-level completeness and window-inside-step clauses are not applied (internal steps are not observable one by one); CPodes options known-deviant in C19 (final time, interpolation off) are not generated",
                     "returned states are compared with the closed-form solution only for error-controlled order>=2 methods at accuracy <= 1e-4 without forced step size"};
    // ---- directed reproducers of the CPodes findings (each must FAIL while the defect exists)
    c.directed.push_back({"cpodes-mask-none-fires", "cpodes-mask-none-fires-rising", [](pbt::Ctx& ctx) {
        Case k = baseCase(8, true, 1.0); addWit(k, Wit::Linear, 0.5, 1, false, false); judgeCase(k, ctx, false); }});
    c.directed.push_back({"cpodes-falling-only-fires-on-rising-zero-at-step-end", "cpodes-exact-zero-ignores-direction", [](pbt::Ctx& ctx) {
        // t - c with c exactly the end of the first internal step (found by a dry run), monitored for FALLING transitions only
        Case k = baseCase(8, true, 0.3); addWit(k, Wit::Linear, 0, 1, false, true, 0, "step-end"); judgeCase(k, ctx, false); }});
    c.directed.push_back({"cpodes-event-window-beyond-request", "cpodes-event-window-passes-request", [](pbt::Ctx& ctx) {
        // sin(2(t-0.3)) crosses exactly at the requested time 0.3
        Case k = baseCase(8, false, 0.3); k.spec.blocks[0].a = 0; k.spec.blocks[0].w = 0.5; k.spec.blocks[1].a = 0; k.spec.oscs[0].omega = 0.5; k.spec.z0[0] = 1.875; k.spec.u0[0] = -0.5;
        addWit(k, Wit::Sine, 0.3, 2, true, true, -1, "final-time"); judgeCase(k, ctx, false); }});
    c.directed.push_back({"scheduled-report-on-a-crossing-inside-window", "report-inside-event-window", [](pbt::Ctx& ctx) {
        // t - c with c = 0.10277000020723791 = the first multiple of a periodic reporter; a second periodic reporter (0.04) makes the
        // integrator step towards an EARLIER report when it localises the event, so the report at c ends up inside the window
        Case k = baseCase(0, true, 1.0); addWit(k, Wit::Linear, 0.10277000020723791, 1, true, true, -1, "coincident"); k.witAct[0].kind = Action::KickU; k.witAct[0].value = 1.0;
        Sched a; a.kind = 3; a.interval = 0.10277000020723791; k.scheds.push_back(a); Sched b; b.kind = 3; b.interval = 0.040000000031676128; k.scheds.push_back(b);
        judgeCase(k, ctx, false); }});
    c.directed.push_back({"cpodes-second-crossing-right-after-restart-missed", "cpodes-root-missed-after-zero-restart", [](pbt::Ctx& ctx) {
        // handler of t - 0.17700780777368644 kicks u (restart exactly on that witness's zero); t - 0.17759421555992452 crosses 5.9e-4 later
        Case k = baseCase(8, true, 1.5707963267948966); k.spec.blocks[0].a = 0; k.spec.blocks[0].w = 2.4910801318474114; k.spec.blocks[1].a = -2.1398441232740879; k.spec.oscs[0].omega = 2.596864640712738; k.spec.z0 = {1, 0, 0.75}; k.spec.u0[0] = 1;
        addWit(k, Wit::Linear, 0.17700780777368644, 1, true, true); k.witAct[0].kind = Action::KickU; k.witAct[0].value = -1.49078;
        addWit(k, Wit::Linear, 0.17759421555992452, 1, true, true); k.wits[1].reporter = true; k.wits[1].window = 0.01;
        judgeCase(k, ctx, false); }});
    c.directed.push_back({"default-handler-invoked-at-custom-subsystem-time", "scheduled-event-merge-never-clears-ids", [](pbt::Ctx& ctx) {
        // DefaultSystemSubsystem (index 0): list handler at t=0.5 and list reporter at t=0.6; user-written subsystem (index 1): scheduled event at
        // t=0.3 and scheduled report at t=0.2 -> the default handler must be called at 0.5 only, the default reporter at 0.6 only
        Case k = baseCase(0, true, 1.0); k.customSub = true;
        Sched a; a.kind = 0; a.interval = 0; a.times = {0.5}; k.scheds.push_back(a); Sched b; b.kind = 0; b.interval = 0; b.times = {0.3}; b.owner = 1; k.scheds.push_back(b);
        Sched r1; r1.kind = 2; r1.interval = 0; r1.times = {0.6}; k.scheds.push_back(r1); Sched r2; r2.kind = 2; r2.interval = 0; r2.times = {0.2}; r2.owner = 1; k.scheds.push_back(r2);
        judgeCase(k, ctx, false); }});
    c.requiredLabels = {"sched:two-subsystems", "sched:custom-earlier-than-default", "sched:custom-coincident-with-default", "sched:default-earlier-than-custom", "sched:custom-subsystem-events", "sched:custom-subsystem-reports", "mode:direct", "mode:timestepper", "hit:trigger", "hit:simultaneous", "hit:window-ends-on-exact-zero", "hit:zero-at-step-end", "hit:trigger-placed-coincident", "hit:trigger-placed-step-end", "hit:trigger-placed-near", "regime:wide-window", "hit:window-split-at-pending-report",
                        "src:triggered-reporter", "src:periodic-handler", "src:periodic-reporter", "src:list-handler", "src:list-reporter", "action:scaleZ", "action:kickU", "action:setQ", "action:setDiscrete", "hit:terminated-by-handler",
                        "integ:RungeKuttaMerson", "integ:RungeKutta3", "integ:RungeKutta2", "integ:RungeKuttaFeldberg", "integ:Verlet", "integ:ExplicitEuler", "integ:SemiExplicitEuler", "integ:SemiExplicitEuler2", "integ:CPodesBDF", "integ:CPodesAdams"};
    return c;
}
} // namespace

PBT_MAIN(config(), property)
