// C23 -- Measures compute what their definitions say (DESIGN.md section 5, C23).
// Domain: analytic ODE system (gen/anasys.h) + a random DAG of built-in Measures over Real or Vec3 living in their
// own Subsystem (gen/evsys.h MeasureSubsystem): Zero, One, Constant, Time, Variable (changed by a scheduled handler at
// generated times), Sinusoid, Plus, Minus, Scale, Integrate (closed-form operands, initial-condition measure),
// Differentiate (analytic and forced-approximation), Minimum, Maximum, MinAbs, MaxAbs, Delay; random integrator,
// accuracy, step bound, report grid; driven through TimeStepper with return-every-step and report-all so that every
// internal step is observed.
// Oracle (after EVERY returned state, all nodes, all components):
//   * smooth nodes (closed class: polynomials + sinusoids, closed under +,-,scale,integration,differentiation,
//     re-anchored at every Variable change): value == closed form (1e-12 relative; Integrate within Cint*accuracy)
//   * algebraic nodes over anything: value == formula applied to the operands' REPORTED values (1e-13)
//   * stateful nodes (Extremes, Delay, numerical Differentiate): value == the documented algorithm replayed on the
//     operand's reported values at the committed step boundaries (1e-11), plus, for smooth operands, the accuracy the
//     statement asks for (extreme two-sided bracket, Delay within h^2/8 max|f''| when every step < delay,
//     Differentiate within the quadratic-fit error bound); getTimeOfExtremeValue consistent.
#include "pbt.h"
#include "anasys.h"
#include "evsys.h"
#include "SimTKmath.h"
#include <memory>
#include <array>
#include <sys/wait.h>
using namespace SimTK;

namespace {

const double Inf = std::numeric_limits<double>::infinity();
const double Cint = 600;          // Integrate: |error| <= Cint * accuracy * scale   (calibrated, notes/C23.md)

// ---------------------------------------------------------------- closed function class: sum p_j t^j + sum A sin(w t + ph)
struct Fn {
    enum { NP = 8 };
    double p[NP]; std::vector<std::array<double, 3> > s;
    Fn() { for (double& x : p) x = 0; }
    static Fn constant(double c) { Fn f; f.p[0] = c; return f; }
    double eval(double t) const { double v = 0; for (int j = NP - 1; j >= 0; --j) v = v * t + p[j]; for (auto& k : s) v += k[0] * std::sin(k[1] * t + k[2]); return v; }
    Fn plus(const Fn& o, double sign = 1) const { Fn f = *this; for (int j = 0; j < NP; ++j) f.p[j] += sign * o.p[j]; for (auto k : o.s) { k[0] *= sign; f.s.push_back(k); } return f; }
    Fn scaled(double c) const { Fn f = *this; for (double& x : f.p) x *= c; for (auto& k : f.s) k[0] *= c; return f; }
    Fn deriv() const { Fn f; for (int j = 1; j < NP; ++j) f.p[j - 1] = j * p[j]; for (auto k : s) f.s.push_back({k[0] * k[1], k[1], k[2] + 1.5707963267948966}); return f; }
    bool canIntegrate() const { return p[NP - 1] == 0; }
    Fn anti() const { Fn f; for (int j = 0; j + 1 < NP; ++j) f.p[j + 1] = p[j] / (j + 1); for (auto k : s) f.s.push_back({k[0] / k[1], k[1], k[2] - 1.5707963267948966}); return f; }
    // sup |f| over [lo,hi] (upper bound)
    double bound(double lo, double hi) const { double m = std::max(std::abs(lo), std::abs(hi)), v = 0, pw = 1; for (int j = 0; j < NP; ++j) { v += std::abs(p[j]) * pw; pw *= m; } for (auto& k : s) v += std::abs(k[0]); return v; }
};

// ---------------------------------------------------------------- the expression DAG
enum Kind { KZero, KOne, KTime, KConst, KVar, KSin, KPlus, KMinus, KScale, KInteg, KDiffA, KDiffN, KMin, KMax, KMinAbs, KMaxAbs, KDelay, NKinds };
const char* kindName(int k) { static const char* n[] = {"Zero", "One", "Time", "Constant", "Variable", "Sinusoid", "Plus", "Minus", "Scale", "Integrate", "Differentiate", "Differentiate(approx)", "Minimum", "Maximum", "MinAbs", "MaxAbs", "Delay"}; return n[k]; }
struct Node {
    int kind = KZero, a = 0, b = 0;            // operand indices (earlier nodes)
    double c[3] = {0, 0, 0}, amp[3] = {1, 1, 1}, w[3] = {1, 1, 1}, ph[3] = {0, 0, 0}; double factor = 1, delay = 0.1; int varStage = 0;
    // derived
    bool smooth = false, hasVar = false, numErr = false, stateful = false, crashSite = false; int nd = 0; int integDepth = 0;
    bool approxInUse = false;        // Differentiate nodes: model of isUsingApproximation()
    int dep = 0;                     // model of getDependsOnStage(0): 0 constant, 1 Model (Variable), 2 Time
    bool emptyStage = false;         // its depends-on stage is Stage::Empty (analytic derivative of something whose derivative is constant)
    int cl = 1000;                   // smallest derivative order whose depends-on stage is Stage::Empty (1000 = none)
    bool staleSite = false;          // site of known finding algebraic-measure-stale-after-variable-change (set per case)
};
const int NDINF = 1000000;

struct Case {
    bool vec3 = false; int integ = 0; double acc = 1e-3; int stepCtl = 0; double h = 0.05; double t0 = 0, T = 1; bool infNorm = false;
    anasys::Spec spec; std::vector<Node> nodes; std::vector<double> varTimes; std::vector<double> varValues; std::vector<double> reports;
    int exclCrash = 0;
    bool study2 = true; int integ2 = 0; double T2 = 0.5; uint32_t edit = 0;    // continued study: started from a copy of study 1's final State
    int N() const { return vec3 ? 3 : 1; }
};

const char* integName(int w) { static const char* n[] = {"RungeKuttaMerson", "RungeKutta3", "RungeKutta2", "RungeKuttaFeldberg", "Verlet", "ExplicitEuler", "SemiExplicitEuler", "SemiExplicitEuler2", "CPodesBDF", "CPodesAdams"}; return n[w]; }
std::unique_ptr<Integrator> makeInteg(int w, const System& sys, double seeStep) {
    switch (w) {
        case 0: return std::unique_ptr<Integrator>(new RungeKuttaMersonIntegrator(sys));
        case 1: return std::unique_ptr<Integrator>(new RungeKutta3Integrator(sys));
        case 2: return std::unique_ptr<Integrator>(new RungeKutta2Integrator(sys));
        case 3: return std::unique_ptr<Integrator>(new RungeKuttaFeldbergIntegrator(sys));
        case 4: return std::unique_ptr<Integrator>(new VerletIntegrator(sys));
        case 5: return std::unique_ptr<Integrator>(new ExplicitEulerIntegrator(sys));
        case 6: return std::unique_ptr<Integrator>(new SemiExplicitEulerIntegrator(sys, seeStep));
        case 7: return std::unique_ptr<Integrator>(new SemiExplicitEuler2Integrator(sys));
        case 8: return std::unique_ptr<Integrator>(new CPodesIntegrator(sys, CPodes::BDF));
        default: return std::unique_ptr<Integrator>(new CPodesIntegrator(sys, CPodes::Adams));
    }
}

// derive the classification flags of node k from its operands (nodes 0..k-1 already classified)
void classify(std::vector<Node>& nd, int k) {
    Node& n = nd[k]; const Node& A = nd[n.a]; const Node& B = nd[n.b];
    n.smooth = n.hasVar = n.numErr = n.stateful = n.crashSite = n.approxInUse = n.emptyStage = false; n.nd = 0; n.integDepth = 0; n.cl = 1000;
    if (n.kind == KZero || n.kind == KOne || n.kind == KConst || n.kind == KVar || n.kind == KTime) n.cl = 1; else if (n.kind == KInteg) n.cl = A.cl >= 1000 ? 1000 : A.cl + 1;
    switch (n.kind) {   // depends-on stage of the value, as documented per measure type
        case KZero: case KOne: case KConst: n.dep = 0; break; case KVar: n.dep = 1; break; case KTime: case KSin: case KInteg: case KDelay: n.dep = 2; break;
        case KPlus: case KMinus: n.dep = std::max(A.dep, B.dep); break; case KScale: case KDiffN: case KMin: case KMax: case KMinAbs: case KMaxAbs: n.dep = A.dep; break;
        case KDiffA: n.dep = A.nd == 0 ? A.dep : (A.kind == KInteg ? nd[A.a].dep : (A.kind == KSin || A.kind == KTime ? 2 : (A.kind == KDiffA ? A.dep : 0))); break;
    }
    switch (n.kind) {
        case KZero: case KOne: case KConst: case KTime: n.smooth = true; n.nd = NDINF; break;
        case KVar: n.smooth = true; n.hasVar = true; n.nd = NDINF; break;
        case KSin: n.smooth = true; n.nd = 3; break;
        case KPlus: case KMinus: n.smooth = A.smooth && B.smooth; n.hasVar = A.hasVar || B.hasVar; n.numErr = A.numErr || B.numErr; n.nd = 0; n.integDepth = std::max(A.integDepth, B.integDepth); break;
        case KScale: n.smooth = A.smooth; n.hasVar = A.hasVar; n.numErr = A.numErr; n.nd = 0; n.integDepth = A.integDepth; break;
        case KInteg: n.smooth = true; n.hasVar = A.hasVar; n.numErr = true; n.nd = A.nd >= NDINF ? NDINF : A.nd + 1; n.integDepth = A.integDepth + 1; break;
        case KDiffA: case KDiffN:
            n.approxInUse = (n.kind == KDiffN) || A.nd == 0;
            if (!n.approxInUse) { n.cl = A.cl >= 1000 ? 1000 : A.cl - 1; n.emptyStage = n.cl <= 0; }
            if (!n.approxInUse) { n.smooth = A.smooth; n.hasVar = A.hasVar; n.nd = A.nd >= NDINF ? NDINF : A.nd - 1; n.crashSite = true; n.integDepth = A.integDepth;
                                  n.numErr = A.kind == KInteg ? nd[A.a].numErr : A.numErr; }
            else { n.stateful = true; n.nd = 0; }
            break;
        case KMin: case KMax: case KMinAbs: case KMaxAbs: n.stateful = true; n.nd = A.nd; break;
        case KDelay: n.stateful = true; n.nd = 0; break;
    }
}

// decode one unit into a node that is legal given the nodes so far (total: falls back to simpler kinds)
Node decodeNode(pbt::Reader& r, std::vector<Node>& nodes, bool vec3, double T) {
    Node n; int kind = r.pick(20); uint32_t aw = r.w(), bw = r.w();
    for (int i = 0; i < 3; ++i) { uint32_t x = r.w(); n.c[i] = std::floor(((x >> 3) / 536870912.0) * 64 - 32) / 8.0; n.amp[i] = 0.25 + (x & 7) * 0.25; n.w[i] = (0.5 + ((x >> 3) % 16) * 0.5) * (((x >> 7) & 1) ? -1 : 1); n.ph[i] = ((x >> 8) % 13) * 0.5 - 3; }
    { uint32_t x = r.w(); n.factor = ((int)((x >> 3) % 17) - 8) * 0.25; if (n.factor == 0 && (x & 7) != 0) n.factor = 0.5; n.delay = 0.02 + ((x >> 8) % 64) / 64.0 * 0.6; n.varStage = (x >> 16) % 3; }
    const int cnt = (int)nodes.size();
    // operands are searched downwards from a start index biased towards the most recent nodes (composite operands become common)
    auto pickWhere = [&](uint32_t w, const std::function<bool(const Node&)>& ok) { int start = (w & 1) ? cnt - 1 - (int)((w >> 1) % 3) % cnt : (int)((w >> 1) % cnt); for (int j = 0; j < cnt; ++j) { int i = ((start - j) % cnt + cnt) % cnt; if (ok(nodes[i])) return i; } return -1; };
    static const int map[20] = {KConst, KSin, KPlus, KMinus, KScale, KInteg, KDiffA, KDiffN, KMin, KMax, KMinAbs, KMaxAbs, KDelay, KVar, KPlus, KInteg, KScale, KSin, KDelay, KDiffA};
    n.kind = map[kind];
    if (n.kind == KSin && vec3) n.kind = KConst;      // Measure_<Vec3>::Sinusoid is not instantiable (Vec3*Vec3 in its formula)
    auto any = [](const Node&) { return true; };
    switch (n.kind) {
        case KPlus: case KMinus: n.a = pickWhere(aw, any); n.b = pickWhere(bw, any); break;
        case KScale: n.a = pickWhere(aw, any); break;
        case KInteg: {   // integrand: smooth, closed-form integrable, limited nesting; initial condition: any smooth node
            n.a = pickWhere(aw, [](const Node& m) { return m.smooth && m.integDepth < 2; }); n.b = pickWhere(bw, [](const Node& m) { return m.smooth; }); break; }
        case KDiffA: n.a = pickWhere(aw, [](const Node& m) { return m.smooth && !m.numErr && !m.hasVar ? true : (m.smooth && (m.kind == KInteg || m.kind == KVar)); }); break;
        case KDiffN: case KDelay: case KMin: case KMax: case KMinAbs: case KMaxAbs:
            n.a = pickWhere(aw, [](const Node& m) { return m.smooth && !m.hasVar; }); break;
        default: break;
    }
    if (n.a < 0 || n.b < 0) { n.kind = KConst; n.a = n.b = 0; }
    (void)T;
    return n;
}

Case decode(const pbt::Tape& t) {
    Case c; pbt::Reader g(t[0]);
    c.vec3 = g.chance(1, 3); c.integ = g.pick(10);
    { static const char* f = getenv("C23_INTEG"); if (f) c.integ = atoi(f); }
    { uint32_t w = g.w(); double span = (c.integ == 5 || c.integ == 7) ? 2.0 : 5.0; c.acc = std::pow(10.0, -(2 + (w % 4000) / 4000.0 * span)); }
    { uint32_t w = g.w(); c.stepCtl = (w % 4 == 1) ? 1 : (w % 4 == 2 ? 2 : 0); c.h = std::exp(std::log(4e-3) + (std::log(0.15) - std::log(4e-3)) * ((w >> 8) % 1000) / 1000.0); c.infNorm = ((w >> 20) & 3) == 1; }
    c.T = std::max(0.4, std::min(2.0, g.real(0.4, 2.0)));
    { uint32_t w = g.w(); c.t0 = (w & 1) ? 2.0 * ((w >> 1) / 2147483648.0) : 0.0; }
    c.T += c.t0;
    { pbt::Reader g2(t[0]); g2.skip(9); uint32_t w = g2.w(); c.study2 = (w & 7u) != 1; c.integ2 = ((w >> 3) & 1u) ? (int)((w >> 4) % 10) : c.integ; c.T2 = 0.3 + 0.1 * ((w >> 8) % 8); c.edit = (w >> 12) & 7u;
      if ((c.integ2 == 5 || c.integ2 == 7) && c.acc < 1e-4) c.integ2 = c.integ; }     // (order-1 methods only at the accuracies generated for them)
    { anasys::Block b; b.pair = true; b.a = -1.0 * g.unit(); b.w = 0.5 + 3.5 * g.unit(); c.spec.blocks.push_back(b); anasys::Osc o; o.omega = 0.5 + 4.5 * g.unit(); c.spec.oscs.push_back(o);
      c.spec.z0 = {1.0, -0.5}; c.spec.q0 = {1.0}; c.spec.u0 = {0.0}; c.spec.t0 = c.t0; }
    // nodes 0..2 always exist
    { Node z; z.kind = KZero; Node o; o.kind = KOne; Node tm; tm.kind = KTime;
      if (c.vec3) { tm.kind = KConst; tm.c[0] = 0.5; tm.c[1] = -1; tm.c[2] = 2; }     // Measure_<Vec3>::Time and ::Sinusoid are not instantiable (Real-only implementations)
      c.nodes = {z, o, tm}; for (int k = 0; k < 3; ++k) classify(c.nodes, k); }
    const double span = c.T - c.t0;
    for (size_t k = 1; k < t.size(); ++k) {
        pbt::Reader r(t[k]); int uk = r.pick(8);
        if (uk == 6) { if (c.varTimes.size() < 4) { uint32_t w = r.w(), v = r.w(); c.varTimes.push_back(c.t0 + span * (0.05 + 0.9 * (w / 4294967296.0))); c.varValues.push_back(std::floor((v / 4294967296.0) * 32 - 16) / 4.0); } continue; }
        if (uk == 7) { if (c.reports.size() < 5) { uint32_t w = r.w(); double x = c.t0 + span * (w / 4294967296.0); if (x > c.t0 && x < c.T) c.reports.push_back(x); } continue; }
        if (c.nodes.size() >= 18) continue;
        Node n = decodeNode(r, c.nodes, c.vec3, c.T); c.nodes.push_back(n); classify(c.nodes, (int)c.nodes.size() - 1);
    }
    std::sort(c.varTimes.begin(), c.varTimes.end()); c.varTimes.erase(std::unique(c.varTimes.begin(), c.varTimes.end()), c.varTimes.end()); c.varValues.resize(c.varTimes.size());
    std::sort(c.reports.begin(), c.reports.end()); c.reports.erase(std::unique(c.reports.begin(), c.reports.end()), c.reports.end()); c.reports.push_back(c.T);
    return c;
}

// ---------------------------------------------------------------- typed part
template <class T> struct Tr;
template <> struct Tr<Real> { enum { N = 1 }; static double get(const Real& v, int) { return v; } static Real make(const double* c) { return c[0]; } };
template <> struct Tr<Vec3> { enum { N = 3 }; static double get(const Vec3& v, int i) { return v[i]; } static Vec3 make(const double* c) { return Vec3(c[0], c[1], c[2]); } };

template <class T> struct SinMaker { static Measure_<T> make(Subsystem& sub, const Node& n) { return typename Measure_<T>::Constant(sub, Tr<T>::make(n.c)); } };
template <> struct SinMaker<Real> { static Measure_<Real> make(Subsystem& sub, const Node& n) { return Measure_<Real>::Sinusoid(sub, n.amp[0], n.w[0], n.ph[0]); } };
template <class T> struct TimeMaker { static Measure_<T> make(Subsystem& sub) { return typename Measure_<T>::One(sub); } };       // (never used: Vec3 cases carry no Time node)
template <> struct TimeMaker<Real> { static Measure_<Real> make(Subsystem& sub) { return Measure_<Real>::Time(sub); } };

// scheduled handler that writes new values into all Variable measures at the generated times
template <class T> class VarSetter : public ScheduledEventHandler {
public:
    VarSetter(const std::vector<double>& times, const std::vector<double>& values, const std::vector<typename Measure_<T>::Variable>* vars, const std::vector<int>* varNode, const std::vector<Node>* nodes)
    : times(times), values(values), vars(vars), varNode(varNode), nodes(nodes) {}
    Real getNextEventTime(const State& s, bool includeCurrentTime) const override { return evsys::nextOf(times, s.getTime(), includeCurrentTime); }
    void handleEvent(State& s, Real, bool&) const override {
        size_t j = 0; while (j < times.size() && times[j] != s.getTime()) ++j; if (j == times.size()) return;
        for (size_t v = 0; v < vars->size(); ++v) { double c[3]; for (int i = 0; i < 3; ++i) c[i] = newValue(j, (*varNode)[v], i); (*vars)[v].setValue(s, Tr<T>::make(c)); }
    }
    double newValue(size_t j, int node, int comp) const { return values[j] + 0.25 * comp + 0.5 * (node % 3); }
    std::vector<double> times, values;
private: const std::vector<typename Measure_<T>::Variable>* vars; const std::vector<int>* varNode; const std::vector<Node>* nodes;
};

struct Committed { double t; std::vector<double> v; };      // operand values (per component) at a committed step boundary

template <class T>
void runCase(const Case& c, pbt::Ctx& ctx, bool excl) {
    const int N = Tr<T>::N; const int nn = (int)c.nodes.size();
    anasys::AnaSystem sys(c.spec); evsys::MeasureSubsystem msub(sys);
    std::vector<Measure_<T> > M(nn); std::vector<typename Measure_<T>::Variable> vars; std::vector<int> varNode;
    std::vector<typename Measure_<T>::Extreme> ext(nn); std::vector<typename Measure_<T>::Differentiate> dif(nn);
    static const Stage varStages[] = {Stage::Time, Stage::Position, Stage::Dynamics};
    for (int k = 0; k < nn; ++k) {
        const Node& n = c.nodes[k];
        switch (n.kind) {
            case KZero: M[k] = typename Measure_<T>::Zero(msub); break;
            case KOne: M[k] = typename Measure_<T>::One(msub); break;
            case KTime: M[k] = TimeMaker<T>::make(msub); break;
            case KConst: M[k] = typename Measure_<T>::Constant(msub, Tr<T>::make(n.c)); break;
            case KVar: { typename Measure_<T>::Variable v(msub, varStages[n.varStage], Tr<T>::make(n.c)); vars.push_back(v); varNode.push_back(k); M[k] = v; break; }
            case KSin: M[k] = SinMaker<T>::make(msub, n); break;
            case KPlus: M[k] = typename Measure_<T>::Plus(msub, M[n.a], M[n.b]); break;
            case KMinus: M[k] = typename Measure_<T>::Minus(msub, M[n.a], M[n.b]); break;
            case KScale: M[k] = typename Measure_<T>::Scale(msub, n.factor, M[n.a]); break;
            case KInteg: M[k] = typename Measure_<T>::Integrate(msub, M[n.a], M[n.b]); break;
            case KDiffA: case KDiffN: { typename Measure_<T>::Differentiate d(msub, M[n.a]); if (n.kind == KDiffN) d.setForceUseApproximation(true); dif[k] = d; M[k] = d; break; }
            case KMin: { typename Measure_<T>::Minimum e(msub, M[n.a]); ext[k] = e; M[k] = e; break; }
            case KMax: { typename Measure_<T>::Maximum e(msub, M[n.a]); ext[k] = e; M[k] = e; break; }
            case KMinAbs: { typename Measure_<T>::MinAbs e(msub, M[n.a]); ext[k] = e; M[k] = e; break; }
            case KMaxAbs: { typename Measure_<T>::MaxAbs e(msub, M[n.a]); ext[k] = e; M[k] = e; break; }
            case KDelay: M[k] = typename Measure_<T>::Delay(msub, M[n.a], n.delay); break;
        }
    }
    VarSetter<T>* setter = nullptr;
    if (!vars.empty() && !c.varTimes.empty()) { setter = new VarSetter<T>(c.varTimes, c.varValues, &vars, &varNode, &c.nodes); sys.addEventHandler(setter); }
    State s0 = sys.initialState();
    // documented: Differentiate uses the operand's own derivative when it has one (isUsingApproximation tells)
    for (int k = 0; k < nn; ++k) if (c.nodes[k].kind == KDiffA || c.nodes[k].kind == KDiffN) {
        if (dif[k].isUsingApproximation() != c.nodes[k].approxInUse) { ctx.fail("node " + std::to_string(k) + " Differentiate(" + kindName(c.nodes[c.nodes[k].a].kind) + "): isUsingApproximation() = " + std::to_string(dif[k].isUsingApproximation()) + " but the operand " + (c.nodes[k].approxInUse ? "has no" : "has an") + " analytic derivative"); return; }
    }

    // per-study objects (study 0: from the initial State; study 1: a NEW integrator and TimeStepper initialized from a copy of the final State)
    std::unique_ptr<Integrator> integ; std::unique_ptr<TimeStepper> ts; bool cp = false, errorControlled = true; double hBound = Inf, tStart = c.t0; int integKind = c.integ;
    const double Tall = c.study2 ? c.T + c.T2 : c.T;
    auto startStudy = [&](int kind, const State& init) -> bool {
        integKind = kind; ts.reset(); integ = makeInteg(kind, sys, c.stepCtl ? c.h : 0.01);
        integ->setAccuracy(c.acc); integ->setReturnEveryInternalStep(true); if (c.infNorm) integ->setUseInfinityNorm(true);
        if (kind != 6) { if (c.stepCtl == 1) integ->setMaximumStepSize(c.h); else if (c.stepCtl == 2) integ->setFixedStepSize(c.h); }
        cp = kind >= 8; errorControlled = kind != 6 && c.stepCtl != 2;
        hBound = (c.stepCtl != 0 && !cp) ? c.h * 1.002 : ((kind == 6) ? (c.stepCtl ? c.h : 0.01) * 1.002 : Inf);    // a bound on every internal step, when one is in force
        ts.reset(new TimeStepper(sys, *integ)); ts->setReportAllSignificantStates(true);
        try { ts->initialize(init); } catch (const std::exception& e) { ctx.reject("initialize-failed"); if (getenv("C23_SHOW")) { std::string ks; for (auto& n : c.nodes) ks += std::string(kindName(n.kind)) + " "; fprintf(stderr, "INIT vec3=%d %s\n", (int)c.vec3, ks.c_str()); } if (ctx.wantDesc) ctx.desc << "initialize threw: " << std::string(e.what()).substr(0, 300) << "\n"; return false; }
        tStart = init.getTime(); return true;
    };
    if (!startStudy(c.integ, s0)) return;

    // ---- the model
    std::vector<std::vector<Fn> > fn(nn, std::vector<Fn>(N));     // closed forms of the smooth nodes on the current segment
    std::vector<std::vector<double> > varVal(nn, std::vector<double>(3, 0.0));
    for (int k = 0; k < nn; ++k) if (c.nodes[k].kind == KVar) for (int i = 0; i < 3; ++i) varVal[k][i] = c.nodes[k].c[i];
    bool modelOk = true;
    auto rebuild = [&](double tseg, bool first) {
        std::vector<std::vector<Fn> > old = fn;
        for (int k = 0; k < nn; ++k) { const Node& n = c.nodes[k]; if (!n.smooth) continue;
            for (int i = 0; i < N; ++i) { Fn f;
                switch (n.kind) {
                    case KZero: break; case KOne: f.p[0] = 1; break; case KTime: f.p[1] = 1; break; case KConst: f.p[0] = n.c[i]; break; case KVar: f.p[0] = varVal[k][i]; break;
                    case KSin: f.s.push_back({n.amp[0], n.w[0], n.ph[0]}); break;
                    case KPlus: f = fn[n.a][i].plus(fn[n.b][i]); break; case KMinus: f = fn[n.a][i].plus(fn[n.b][i], -1); break; case KScale: f = fn[n.a][i].scaled(n.factor); break;
                    case KInteg: { if (!fn[n.a][i].canIntegrate()) modelOk = false; Fn A = fn[n.a][i].anti(); double v0 = first ? fn[n.b][i].eval(tseg) : old[k][i].eval(tseg); f = A; f.p[0] += v0 - A.eval(tseg); break; }
                    case KDiffA: f = fn[n.a][i].deriv(); break;
                    default: break;
                }
                fn[k][i] = f; } }
    };
    rebuild(c.t0, true);
    if (!modelOk) { ctx.reject("polynomial-degree"); return; }

    // committed operand histories of the stateful nodes (values REPORTED by the library at the committed step boundaries)
    std::vector<std::vector<Committed> > hist(nn);
    struct DiffState { double t; std::vector<double> f, d; bool good; }; std::vector<DiffState> dst(nn);
    std::vector<std::vector<double> > extStored(nn), extTime(nn);
    bool started = false; double tPrev = c.t0, hMaxSeen = 0, lastCommitT = c.t0; size_t nextVar = 0; long nStates = 0; double worstInt = 0;
    const double Tspan = Tall - c.t0; bool variableEdited = false;
    std::vector<std::vector<double> > val(nn, std::vector<double>(N));

    auto extremeOf = [&](int kind, double nv, double old) { switch (kind) { case KMax: return nv > old ? nv : old; case KMin: return nv < old ? nv : old; case KMaxAbs: return std::abs(nv) > std::abs(old) ? nv : old; default: return std::abs(nv) < std::abs(old) ? nv : old; } };
    auto isNewExt = [&](int kind, double nv, double old) { switch (kind) { case KMax: return nv > old; case KMin: return nv < old; case KMaxAbs: return std::abs(nv) > std::abs(old); default: return std::abs(nv) < std::abs(old); } };

    auto judgeState = [&](const State& s, bool interpolated) -> bool {
        const double t = s.getTime(); nStates++;
        sys.realize(s, Stage::Acceleration);
        for (int k = 0; k < nn; ++k) { const T& v = M[k].getValue(s); for (int i = 0; i < N; ++i) val[k][i] = Tr<T>::get(v, i); }
        if (ctx.wantDesc && nStates < 12) { ctx.desc << "    values at t=" << pbt::str(t) << ":"; for (int k = 3; k < nn; ++k) ctx.desc << " m" << k << "=" << val[k][0]; ctx.desc << "\n"; }
        for (int k = 0; k < nn; ++k) { const Node& n = c.nodes[k];
            if (n.staleSite && (nextVar > 0 || variableEdited) && excl && ctx.known("algebraic-measure-stale-after-variable-change")) { ctx.label("excluded:algebraic-measure-stale-after-variable-change"); continue; }
            for (int i = 0; i < N; ++i) {
                const double v = val[k][i]; std::ostringstream id; id.precision(17); id << "node " << k << " " << kindName(n.kind) << (N > 1 ? "[" + std::to_string(i) + "]" : std::string("")) << " at t=" << t << (interpolated ? " (interpolated state)" : "") << ": value " << v;
                if (!std::isfinite(v)) { ctx.fail(id.str() + " is not finite"); return false; }
                // (1) smooth nodes against the closed form
                // (algebraic nodes over integrals are judged by clause (2) only: their error is the combination of the operands'
                //  integration errors, not bounded by their own closed form -- e.g. the difference of two integrals of the same integrand)
                const bool algebraicOverIntegral = (n.kind == KPlus || n.kind == KMinus || n.kind == KScale) && n.numErr;
                if (n.smooth && !algebraicOverIntegral) {
                    const double e = fn[k][i].eval(t), sc = std::max(1.0, fn[k][i].bound(c.t0, Tall));
                    if (!n.numErr) { if (std::abs(v - e) > 1e-12 * sc) { ctx.fail(id.str() + " != closed form " + pbt::str(e)); return false; } }
                    else if (!errorControlled) {   // forced step size / SemiExplicitEuler: accuracy is not controlled; first-order quadrature bound instead
                        Fn d1 = fn[k][i].deriv(), d2 = d1.deriv(); const double tol = 2 * hBound * Tspan * (1 + Tspan) * (d1.bound(c.t0, Tall) + d2.bound(c.t0, Tall)) + 1e-12 * sc;
                        if (std::abs(v - e) > tol) { ctx.fail(id.str() + " differs from the closed-form integral " + pbt::str(e) + " by " + pbt::str(std::abs(v - e)) + " > first-order bound " + pbt::str(tol) + " for fixed step " + pbt::str(hBound)); return false; } }
                    else { double r = std::abs(v - e) / (c.acc * sc * std::max(1.0, Tspan)); worstInt = std::max(worstInt, r);
                           static const bool calib = getenv("C23_CALIB") != nullptr;
                           if (!calib && r > Cint) { ctx.fail(id.str() + " differs from the closed-form integral " + pbt::str(e) + " by " + pbt::str(std::abs(v - e)) + " = " + pbt::str(r) + " x accuracy x scale (limit " + pbt::str(Cint) + ")"); return false; } }
                }
                // (2) algebraic nodes against their operands' reported values
                if (n.kind == KPlus || n.kind == KMinus || n.kind == KScale) {
                    const double e = n.kind == KPlus ? val[n.a][i] + val[n.b][i] : n.kind == KMinus ? val[n.a][i] - val[n.b][i] : n.factor * val[n.a][i];
                    if (std::abs(v - e) > 1e-13 * std::max(1.0, std::abs(e))) { ctx.fail(id.str() + " != formula on the operands' values " + pbt::str(e)); return false; }
                }
                const double op = val[n.a][i];
                // (3) extremes: documented semantics replayed on the committed operand values
                if (n.kind == KMin || n.kind == KMax || n.kind == KMinAbs || n.kind == KMaxAbs) {
                    const double stored = extStored[k][i], e = extremeOf(n.kind, op, stored);
                    if (std::abs(v - e) > 1e-11 * std::max(1.0, std::abs(e))) { ctx.fail(id.str() + " != extreme of {operand at the step boundaries so far, operand now " + pbt::str(op) + "} = " + pbt::str(e)); return false; }
                    // (the two-sided bracket of the design -- between the continuous extreme and the extreme over the observed states -- is implied:
                    //  the value equals the operand at one of the observed step boundaries or now, and smooth operands are verified against their closed form there)
                }
                // (4) delay: documented linear interpolation of the committed buffer
                if (n.kind == KDelay) {
                    const std::vector<Committed>& H = hist[k]; const double td = t - n.delay; double e;
                    int firstLater = -1; for (size_t j = 0; j < H.size(); ++j) if (H[j].t >= td) { firstLater = (int)j; break; }
                    if (firstLater > 0) { double t0 = H[firstLater - 1].t, t1 = H[firstLater].t, v0 = H[firstLater - 1].v[i], v1 = H[firstLater].v[i]; e = v0 + (td - t0) / (t1 - t0) * (v1 - v0); }
                    else if (firstLater == 0) e = H[0].v[i];
                    else if (H.size() == 1) e = H[0].v[i];
                    else { size_t m = H.size(); double t0 = H[m - 2].t, t1 = H[m - 1].t, v0 = H[m - 2].v[i], v1 = H[m - 1].v[i]; e = v0 + (td - t0) / (t1 - t0) * (v1 - v0); }
                    if (std::abs(v - e) > 1e-10 * std::max(1.0, std::abs(e))) { ctx.fail(id.str() + " != documented linear interpolation of the buffered operand values at t-delay=" + pbt::str(td) + ": " + pbt::str(e)); return false; }
                    const Node& A = c.nodes[n.a];
                    if (A.smooth && !A.numErr) {    // what the statement asks for: the operand's value at t - delay
                        if (td <= tStart) { const double f0 = fn[n.a][i].eval(tStart); if (std::abs(v - f0) > 1e-12 * std::max(1.0, std::abs(f0))) { ctx.fail(id.str() + " != operand's initial value " + pbt::str(f0) + " although t-delay precedes the start"); return false; } ctx.label("delay:before-start"); }
                        else if (hBound * 1.0 < n.delay) { const double f = fn[n.a][i].eval(td), M2 = fn[n.a][i].deriv().deriv().bound(c.t0, Tall), tol = hBound * hBound / 8 * M2 * 1.01 + 1e-12 * std::max(1.0, std::abs(f));
                            if (std::abs(v - f) > tol) { ctx.fail(id.str() + " differs from the operand's value at t-delay " + pbt::str(f) + " by more than the linear-interpolation bound h^2/8 max|f''| = " + pbt::str(tol)); return false; } ctx.label("delay:interpolation-bound-checked"); }
                    }
                }
                // (5) numerical differentiation: documented quadratic fit replayed on the committed sample
                if ((n.kind == KDiffA || n.kind == KDiffN) && n.approxInUse) {
                    const DiffState& D = dst[k]; double e;
                    if (t == D.t) e = D.d[i]; else { e = (op - D.f[i]) / (t - D.t); if (D.good) e = 2 * e - D.d[i]; }
                    const double sc = std::max(1.0, std::abs(e));
                    if (std::abs(v - e) > 1e-9 * sc * std::max(1.0, 1e-3 / std::max(1e-12, std::abs(t - D.t)))) { ctx.fail(id.str() + " != documented estimate 2(f-f0)/(t-t0)-fdot0 = " + pbt::str(e) + " (f0 at the last step boundary " + pbt::str(D.t) + ")"); return false; }
                    const Node& A = c.nodes[n.a];
                    if (A.smooth && !A.numErr && std::isfinite(hBound)) {   // tracks the operand's derivative: |error| <= h/2 max|f''| + T h/6 max|f'''| (alternating recursion, see notes)
                        Fn d1 = fn[n.a][i].deriv(), d2 = d1.deriv(), d3 = d2.deriv(); const double tol = (0.5 * hBound * d2.bound(c.t0, Tall) + Tspan * hBound / 6 * d3.bound(c.t0, Tall)) * 1.05 + 1e-7 * std::max(1.0, d1.bound(c.t0, Tall));
                        if (t > tStart && std::abs(v - d1.eval(t)) > tol) { ctx.fail(id.str() + " differs from the operand's derivative " + pbt::str(d1.eval(t)) + " by more than the quadratic-fit bound " + pbt::str(tol)); return false; }
                        if (t > tStart) { ctx.label("diff:accuracy-bound-checked"); if (tStart > c.t0) ctx.label("study2:differentiate-accuracy-bound-checked"); }
                    }
                }
            }
            // time of extreme value: now if the operand is a new extreme, else the time the stored extreme was committed
            if (n.kind == KMin || n.kind == KMax || n.kind == KMinAbs || n.kind == KMaxAbs) {
                bool isNew = false; for (int i = 0; i < N; ++i) if (isNewExt(n.kind, val[n.a][i], extStored[k][i])) isNew = true;
                const double te = ext[k].getTimeOfExtremeValue(s);
                if (isNew && te != t) { ctx.fail("node " + std::to_string(k) + " " + kindName(n.kind) + ": operand is at a new extreme at t=" + pbt::str(t) + " but getTimeOfExtremeValue() = " + pbt::str(te)); return false; }
                if (!isNew && !(te <= t)) { ctx.fail("node " + std::to_string(k) + " " + kindName(n.kind) + ": getTimeOfExtremeValue() = " + pbt::str(te) + " is later than now " + pbt::str(t)); return false; }
            }
        }
        return true;
    };
    // the state just returned is a step boundary: the library will commit its update values when the next step starts
    // (the commit itself happens when the NEXT step starts, so it is applied lazily: see `pending` in the main loop)
    double pendT = c.t0; bool pendHave = false; std::vector<std::vector<double> > pendVal;
    auto commit = [&]() {
        const double t = pendT; const std::vector<std::vector<double> >& val = pendVal;
        for (int k = 0; k < nn; ++k) { const Node& n = c.nodes[k]; if (!n.stateful) continue;
            std::vector<double> opv(N); for (int i = 0; i < N; ++i) opv[i] = val[n.a][i];
            if (n.kind == KDelay) { std::vector<Committed>& H = hist[k]; while (!H.empty() && H.back().t >= t) H.pop_back(); H.push_back({t, opv}); }
            else if (n.kind == KDiffA || n.kind == KDiffN) { DiffState& D = dst[k]; if (t != D.t) { std::vector<double> est(N); for (int i = 0; i < N; ++i) est[i] = val[k][i]; D.d = est; D.good = true; D.f = opv; D.t = t; } }
            else { for (int i = 0; i < N; ++i) extStored[k][i] = extremeOf(n.kind, opv[i], extStored[k][i]); }
        }
        lastCommitT = t;
    };
    // one study: the stateful models start from what initialize() is documented to do, then every returned state is judged
    auto runStudy = [&](const std::vector<double>& reports) -> bool {
    // initial condition of the stateful models = what initialize() is documented to do (sample the operand at the start time)
    {
        const State& s = integ->getState(); sys.realize(s, Stage::Acceleration);
        for (int k = 0; k < nn; ++k) { const T& v = M[k].getValue(s); for (int i = 0; i < N; ++i) val[k][i] = Tr<T>::get(v, i); }
        for (int k = 0; k < nn; ++k) { const Node& n = c.nodes[k]; if (!n.stateful) continue; std::vector<double> opv(N); for (int i = 0; i < N; ++i) opv[i] = val[n.a][i];
            hist[k].clear(); hist[k].push_back({tStart, opv}); dst[k] = {tStart, opv, std::vector<double>(N, 0.0), false}; extStored[k] = opv; }
    }

    long guard = 0; bool over = false; pendHave = false; pendT = tStart;
    for (size_t ri = 0; ri < reports.size() && !over; ++ri) {
        const double time = reports[ri];
        for (;;) {
            if (++guard > 300000) { ctx.reject("too-many-steps"); return false; }
            Integrator::SuccessfulStepStatus st;
            try { st = ts->stepTo(time); }
            catch (const std::exception& e) { std::string what = e.what(); if (cp && what.find("CPodes::step() returned an error") != std::string::npos) { ctx.reject("cpodes-step-failed"); return false; }
                ctx.fail(std::string(integName(integKind)) + ": TimeStepper::stepTo(" + pbt::str(time) + ") threw: " + what.substr(0, 400)); return false; }
            const State& s = integ->getState(); const double t = s.getTime(); const bool interp = integ->isStateInterpolated();
            // a Variable change time reached: the handler has run (ReachedScheduledEvent is returned after handling)
            while (nextVar < c.varTimes.size() && setter && st == Integrator::ReachedScheduledEvent && t == c.varTimes[nextVar]) {
                for (size_t v = 0; v < varNode.size(); ++v) for (int i = 0; i < 3; ++i) varVal[varNode[v]][i] = setter->newValue(nextVar, varNode[v], i);
                rebuild(t, false); nextVar++; ctx.label("hit:variable-changed");
            }
            if (ctx.wantDesc && guard < 200) ctx.desc << "  stepTo(" << pbt::str(time) << ") -> status " << (int)st << " t=" << pbt::str(t) << " ta=" << pbt::str(integ->getAdvancedTime()) << (interp ? " interpolated" : "") << "\n";
            if (!interp) hMaxSeen = std::max(hMaxSeen, t - pendT);
            if (std::isfinite(hBound) && !interp && t - pendT > hBound * 1.0000001) { ctx.fail(std::string(integName(integKind)) + ": internal step " + pbt::str(t - pendT) + " exceeds the step bound in force " + pbt::str(hBound)); return false; }
            if (pendHave && integ->getAdvancedTime() > pendT) { commit(); pendHave = false; }     // a step was started from the pending boundary state
            if (!judgeState(s, interp)) { if (ctx.failed) ctx.msg = std::string(integName(integKind)) + (tStart > c.t0 ? " [continued study]" : "") + " acc=" + pbt::str(c.acc) + ": " + ctx.msg; return false; }
            if (!interp) { pendHave = true; pendT = t; pendVal = val; }
            started = true; tPrev = t;
            if (integ->isSimulationOver() || st == Integrator::EndOfSimulation) { over = true; break; }
            if (t >= time && st == Integrator::ReachedReportTime) break;
        }
    }
    return true;
    };
    if (!runStudy(c.reports)) return;
    // ---- continued study: a NEW integrator and TimeStepper are initialized from a State that DESCENDS from the first run (a copy of its
    // final State, edited): initialize() must re-sample every stateful measure exactly as documented for a fresh study -- Integrate
    // restarts from its initial-condition measure, extremes and Delay restart from the operand's current value, the numerical
    // Differentiate starts with derivative 0 and a FIRST-order estimate on its first step -- and all nodes are judged as before.
    if (c.study2 && !integ->isSimulationOver()) {
        State s2 = integ->getState();
        // writing the time (to the same value) drops the Time-stage caches of the copy: without it an Integrate used as the initial
        // condition of another Integrate would be read from its stale value cache (known finding integrate-value-cache-stale-same-time)
        s2.updTime() = s2.getTime();
        if (c.edit & 1u) { Vector& z = s2.updZ(sys.subsystem()); for (int i = 0; i < z.size(); ++i) z[i] *= 0.5; s2.updU(sys.subsystem())[0] += 0.25; ctx.label("study2:edited-system-state"); }
        if ((c.edit & 2u) && !vars.empty()) { for (size_t v = 0; v < vars.size(); ++v) { double cc[3]; for (int i = 0; i < 3; ++i) { cc[i] = 0.75 - 0.5 * i + 0.25 * (double)v; varVal[varNode[v]][i] = cc[i]; } vars[v].setValue(s2, Tr<T>::make(cc)); }
            variableEdited = true; ctx.label("study2:edited-variable"); }
        const double T1 = s2.getTime();
        if (!startStudy(c.integ2, s2)) return;
        rebuild(T1, true);
        ctx.label("study:continued-from-descended-state"); if (c.integ2 != c.integ) ctx.label("study2:other-integrator");
        for (auto& n : c.nodes) { if ((n.kind == KDiffA || n.kind == KDiffN) && n.approxInUse) ctx.label("study2:differentiate-approx"); if (n.kind == KInteg) ctx.label("study2:integrate"); if (n.kind == KDelay) ctx.label("study2:delay"); if (n.kind >= KMin && n.kind <= KMaxAbs) ctx.label("study2:extreme"); }
        std::vector<double> rep2; rep2.push_back(T1 + 0.4 * c.T2); rep2.push_back(T1 + c.T2);
        if (!runStudy(rep2)) return;
    }
    (void)started; (void)tPrev;
    { static const bool calib = getenv("C23_CALIB") != nullptr; if (calib) { bool any = false; for (auto& n : c.nodes) if (n.numErr) any = true; if (any) fprintf(stderr, "CAL %s %g\n", integName(c.integ), worstInt); } }
    ctx.label("states:" + std::string(nStates < 20 ? "<20" : nStates < 100 ? "<100" : nStates < 1000 ? "<1000" : ">=1000"));
}

void describe(const Case& c, pbt::Ctx& ctx) {
    ctx.desc << "type=" << (c.vec3 ? "Vec3" : "Real") << " integrator=" << integName(c.integ) << " acc=" << pbt::str(c.acc) << " stepCtl=" << (c.stepCtl == 0 ? "none" : c.stepCtl == 1 ? "max" : "fixed") << " h=" << pbt::str(c.h)
             << " t0=" << pbt::str(c.t0) << " T=" << pbt::str(c.T) << " infNorm=" << c.infNorm << "\nsystem: " << c.spec.describe() << "\n";
    for (size_t k = 0; k < c.nodes.size(); ++k) { const Node& n = c.nodes[k]; ctx.desc << "  m" << k << " = " << kindName(n.kind);
        switch (n.kind) { case KConst: case KVar: ctx.desc << "(" << n.c[0] << "," << n.c[1] << "," << n.c[2] << ")"; break; case KSin: ctx.desc << "(a=" << n.amp[0] << ",w=" << n.w[0] << ",p=" << n.ph[0] << ")"; break;
            case KPlus: case KMinus: ctx.desc << "(m" << n.a << ", m" << n.b << ")"; break; case KScale: ctx.desc << "(" << n.factor << ", m" << n.a << ")"; break; case KInteg: ctx.desc << "(deriv=m" << n.a << ", ic=m" << n.b << ")"; break;
            case KDelay: ctx.desc << "(m" << n.a << ", delay=" << n.delay << ")"; break; case KZero: case KOne: case KTime: break; default: ctx.desc << "(m" << n.a << ")"; }
        ctx.desc << (n.crashSite ? "   [analytic derivative]" : "") << "\n"; }
    ctx.desc << "variable changes at: "; for (size_t j = 0; j < c.varTimes.size(); ++j) ctx.desc << pbt::str(c.varTimes[j]) << "->" << c.varValues[j] << " "; ctx.desc << "\nrequests: "; for (double x : c.reports) ctx.desc << pbt::str(x) << " "; ctx.desc << "\n";
}

void labelCase(const Case& c, pbt::Ctx& ctx) {
    ctx.label(c.vec3 ? "type:Vec3" : "type:Real"); ctx.label(std::string("integ:") + integName(c.integ));
    bool nontrivial = false;
    for (auto& n : c.nodes) { ctx.label(std::string("node:") + kindName(n.kind)); if (n.kind == KDiffA && !n.approxInUse) ctx.label("node:Differentiate-analytic");
        const Node& A = c.nodes[n.a];
        if ((n.kind == KInteg || n.stateful) && (A.kind == KPlus || A.kind == KMinus || A.kind == KScale || A.kind == KInteg || A.kind == KDiffA)) nontrivial = true; }
    ctx.nontrivial(nontrivial);
}

void property(const pbt::Tape& t, pbt::Ctx& ctx) {
    Case c = decode(t);
    // known finding measure-differentiate-analytic-crash: a Differentiate measure whose operand supplies its own derivative
    // (and without setForceUseApproximation(true)) segfaults at realize(Acceleration). Site predicate on the INPUT: the
    // node is such a Differentiate. While listed, the shape is not generated: the node is built with forced approximation
    // instead (counted); the directed reproducer runs the crashing shape in a forked child.
    // (one ascending pass: a node depends only on earlier ones; consumers that become illegal after a rewrite -- a forced-
    //  approximation node is not smooth -- are demoted to constants)
    for (size_t k = 3; k < c.nodes.size(); ++k) { Node& n = c.nodes[k]; classify(c.nodes, (int)k);
        const Node& A = c.nodes[n.a]; const Node& B = c.nodes[n.b]; bool ok = true;
        if (n.kind == KInteg) ok = A.smooth && B.smooth && A.integDepth < 2; else if (n.kind == KDiffA && !n.approxInUse) ok = A.smooth; else if (n.stateful) ok = A.smooth && !A.hasVar;
        // known finding differentiate-approx-time-independent-operand: numerical Differentiate over an operand that does not depend on
        // time makes Integrator::initialize throw. Site predicate on the INPUT: approximating Differentiate whose operand's depends-on
        // stage is below Time. While listed the shape is not generated (demoted to a constant, counted).
        if (ok && (n.kind == KDiffA || n.kind == KDiffN) && n.approxInUse && A.dep < 2 && ctx.known("differentiate-approx-time-independent-operand")) { ok = false; ctx.label("excluded:differentiate-approx-time-independent-operand"); }
        // (a measure whose depends-on stage is Stage::Empty -- the analytic derivative of a constant, of Time or of a Variable -- cannot be an
        //  operand: Plus/Minus/Scale/Extreme would ask the State for a cache entry at stage Empty and realizeTopology() throws; see notes)
        if (ok && n.kind > KSin && (A.emptyStage || ((n.kind == KPlus || n.kind == KMinus || n.kind == KInteg) && B.emptyStage))) { ok = false; ctx.label("avoided:operand-with-empty-depends-on-stage"); }
        if (!ok) { n.kind = KConst; n.a = n.b = 0; classify(c.nodes, (int)k); }
        if (n.crashSite && ctx.known("measure-differentiate-analytic-crash")) { n.kind = KDiffN; classify(c.nodes, (int)k); ctx.label("excluded:measure-differentiate-analytic-crash");
            if (!(A.smooth && !A.hasVar) || (A.dep < 2 && ctx.known("differentiate-approx-time-independent-operand"))) { n.kind = KConst; n.a = n.b = 0; classify(c.nodes, (int)k); } }
    }
    // known finding algebraic-measure-stale-after-variable-change: Plus/Minus/Scale keep their value in a lazy cache entry whose
    // depends-on stage is the max of the operands' depends-on stages, and Measure::Variable declares "Model" although
    // setValue() invalidates only the stage given at construction (>= Time here): when every Variable that is written invalidates
    // a LATER stage than the algebraic node depends on, the node (and everything computed from it) keeps the value it had before
    // the change. Site predicate on the INPUT: node is, or is computed from, a Plus/Minus/Scale that reads a Variable and whose
    // depends-on stage is below the earliest stage invalidated by the Variables written (all are written together here).
    {
        int minInv = 99; for (auto& n : c.nodes) if (n.kind == KVar) minInv = std::min(minInv, 2 + n.varStage);
        for (auto& n : c.nodes) { n.staleSite = false; const bool alg = n.kind == KPlus || n.kind == KMinus || n.kind == KScale;
            if (alg && n.hasVar && n.dep < minInv) n.staleSite = true;
            if (n.kind > KSin && (c.nodes[n.a].staleSite || ((n.kind == KPlus || n.kind == KMinus || n.kind == KInteg) && c.nodes[n.b].staleSite))) n.staleSite = true; }
    }
    if (ctx.wantDesc) describe(c, ctx);
    labelCase(c, ctx);
    if (c.vec3) runCase<Vec3>(c, ctx, true); else runCase<Real>(c, ctx, true);
}

// The crashing shape, run in a forked child so that the harness survives: returns the child's fate.
std::string runCrashShapeInChild() {
    fflush(stdout); fflush(stderr);
    pid_t pid = fork();
    if (pid == 0) {
        signal(SIGSEGV, SIG_DFL); signal(SIGBUS, SIG_DFL); signal(SIGABRT, SIG_DFL); signal(SIGFPE, SIG_DFL); signal(SIGILL, SIG_DFL); alarm(30);
        int code = 0;
        try {
            anasys::Spec sp; sp.oscs.push_back({2.0}); sp.q0.push_back(1.0); sp.u0.push_back(0.0);
            anasys::AnaSystem sys(sp); evsys::MeasureSubsystem msub(sys);
            Measure::Zero zero(msub); Measure::Sinusoid sn(msub, 1, 2, 0.3); Measure::Integrate integ(msub, sn, zero); Measure::Differentiate d(msub, integ);
            State s = sys.initialState(); sys.realize(s, Stage::Acceleration);
            double v = d.getValue(s), e = sn.getValue(s);
            if (!(std::abs(v - e) <= 1e-12)) code = 3;      // d/dt Integrate(f) must be f
        } catch (...) { code = 2; }
        _exit(code);
    }
    int status = 0; waitpid(pid, &status, 0);
    if (WIFSIGNALED(status)) return std::string("child killed by signal ") + std::to_string(WTERMSIG(status)) + " (" + strsignal(WTERMSIG(status)) + ")";
    if (WIFEXITED(status) && WEXITSTATUS(status) == 3) return "wrong value";
    if (WIFEXITED(status) && WEXITSTATUS(status) == 2) return "exception";
    return "";
}

pbt::Config config() {
    pbt::Config c; c.prop = "C23"; c.K = 12; c.minUnits = 3; c.caseTimeoutSecs = 60;
    c.quick = {1000, 6000, 16, 25}; c.thorough = {6000, 40000, 18, 150};
    c.rule = "rapidcheck tape -> measure type {Real, Vec3} x integrator (10) x accuracy 1e-2..1e-7 x step bound {none, max, fixed 4e-3..0.15} x analytic ODE system x DAG of <= 18 measures (Zero, One, Time always; units add Constant, Variable, Sinusoid (Real), Plus, Minus, Scale over any earlier nodes, Integrate over smooth nodes with a smooth initial-condition node, Differentiate analytic/forced-approximate, Minimum/Maximum/MinAbs/MaxAbs/Delay over variable-free smooth nodes) x <= 4 scheduled Variable changes x <= 5 extra report times; TimeStepper with return-every-step + report-all, every returned state judged. Non-trivial: some Integrate/Extreme/Delay/numerical Differentiate has a composite operand (Plus/Minus/Scale/Integrate/Differentiate).";
    c.assumptions = {"smooth nodes form a closed class (polynomial + sinusoids) evaluated in closed form; Integrate error <= 600 x accuracy x scale x max(1,T) (calibrated)",
                     "stateful measures are replayed from the documented algorithms on the operand values the library itself reported at the committed step boundaries (every returned non-interpolated state)",
                     "Variable-dependent operands are not placed under Extreme/Delay/numerical Differentiate (their update caches depend on the Variable's declared stage; see notes)",
                     "SampleAndHold has no implementation in the repository and is not exercised"};
    c.directed.push_back({"differentiate-of-integrate-analytic", "measure-differentiate-analytic-crash", [](pbt::Ctx& ctx) {
        std::string fate = runCrashShapeInChild();
        ctx.desc << "Differentiate(Integrate(Sinusoid(1,2,0.3), Zero)) without setForceUseApproximation, realize(Acceleration), getValue: " << (fate.empty() ? "ok" : fate) << "\n";
        ctx.check(fate.empty(), "Differentiate over an operand with an analytic derivative: " + fate + " at realize(Acceleration)/getValue");
    }});
    c.directed.push_back({"differentiate-approx-of-constant-initialize", "differentiate-approx-time-independent-operand", [](pbt::Ctx& ctx) {
        anasys::Spec sp; sp.oscs.push_back({2.0}); sp.q0.push_back(1.0); sp.u0.push_back(0.0);
        anasys::AnaSystem sys(sp); evsys::MeasureSubsystem msub(sys);
        Measure::One one(msub); Measure::Differentiate d(msub, one); d.setForceUseApproximation(true);
        State s0 = sys.initialState(); RungeKuttaMersonIntegrator integ(sys); TimeStepper ts(sys, integ);
        std::string what; try { ts.initialize(s0); ts.stepTo(0.1); sys.realize(ts.getState(), Stage::Acceleration); double v = d.getValue(ts.getState()); if (v != 0) what = "value " + pbt::str(v) + " != 0"; }
        catch (const std::exception& e) { what = e.what(); }
        ctx.desc << "Differentiate(One) with forced approximation, TimeStepper::initialize + stepTo(0.1): " << (what.empty() ? "ok" : what.substr(0, 300)) << "\n";
        ctx.check(what.empty(), "numerical Differentiate of a constant measure: " + what.substr(0, 300));
    }});
    c.directed.push_back({"plus-of-variable-stale-after-setvalue", "algebraic-measure-stale-after-variable-change", [](pbt::Ctx& ctx) {
        anasys::Spec sp; sp.oscs.push_back({2.0}); sp.q0.push_back(1.0); sp.u0.push_back(0.0);
        anasys::AnaSystem sys(sp); evsys::MeasureSubsystem msub(sys);
        Measure::Zero zero(msub); Measure::Variable var(msub, Stage::Time, -4.0); Measure::Plus plus(msub, var, zero);
        State s = sys.initialState(); sys.realize(s, Stage::Acceleration); double before = plus.getValue(s);
        var.setValue(s, -3.75); sys.realize(s, Stage::Acceleration); double after = plus.getValue(s), v = var.getValue(s);
        ctx.desc << "Plus(Variable(Stage::Time,-4), Zero): " << before << "; after Variable::setValue(-3.75) and realize(Acceleration): Variable=" << v << " Plus=" << after << "\n";
        ctx.check(after == v, "Plus(Variable, Zero) = " + pbt::str(after) + " after the Variable was set to " + pbt::str(v));
    }});
    c.directed.push_back({"integrate-value-stale-within-verlet-step", "integrate-value-cache-stale-same-time", [](pbt::Ctx& ctx) {
        // two identical integrals of t; the second one is also the integrand of a third measure, so it is READ (and cached) while
        // Verlet is still iterating on z at the new time; its cached value is not refreshed when z is corrected
        anasys::Spec sp; sp.oscs.push_back({0.5}); sp.q0.push_back(1.0); sp.u0.push_back(0.0);
        anasys::AnaSystem sys(sp); evsys::MeasureSubsystem msub(sys);
        Measure::Zero zero(msub); Measure::Time tm(msub); Measure::Integrate a(msub, tm, zero), b(msub, tm, zero), nested(msub, b, zero);
        State s0 = sys.initialState(); VerletIntegrator integ(sys); integ.setFixedStepSize(0.083085294276618232); integ.setReturnEveryInternalStep(true);
        TimeStepper ts(sys, integ); ts.setReportAllSignificantStates(true); ts.initialize(s0);
        double worst = 0, ta = 0, tb = 0, tt = 0;
        for (int k = 0; k < 4; ++k) { ts.stepTo(0.4); const State& s = integ.getState(); sys.realize(s, Stage::Acceleration); double va = a.getValue(s), vb = b.getValue(s); if (std::abs(va - vb) > worst) { worst = std::abs(va - vb); ta = va; tb = vb; tt = s.getTime(); } }
        ctx.desc << "Verlet, fixed step 0.0831: a = Integrate(Time), b = Integrate(Time), nested = Integrate(b): largest |a-b| = " << worst << " at t=" << tt << " (a=" << ta << ", b=" << tb << ", exact " << tt * tt / 2 << ")\n";
        ctx.check(worst == 0, "two identical Integrate measures report different values at the same state: " + pbt::str(ta) + " vs " + pbt::str(tb) + " at t=" + pbt::str(tt));
    }});
    c.requiredLabels = {"type:Real", "type:Vec3", "node:Integrate", "node:Differentiate(approx)", "node:Minimum", "node:Maximum", "node:MinAbs", "node:MaxAbs", "node:Delay", "node:Variable", "node:Sinusoid", "node:Plus", "node:Minus", "node:Scale",
                        "study:continued-from-descended-state", "study2:differentiate-approx", "study2:differentiate-accuracy-bound-checked", "study2:integrate", "study2:delay", "study2:extreme", "study2:edited-variable", "hit:variable-changed", "delay:interpolation-bound-checked", "delay:before-start", "diff:accuracy-bound-checked"};
    return c;
}
} // namespace

PBT_MAIN(config(), property)
