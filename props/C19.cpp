// C19 -- Integrators honour the step/report/scheduled/final-time contract (DESIGN.md section 5, C19).
// Domain: all 9 integrators (+ CPodes/Adams) on analytic ODE systems (gen/anasys.h), option sets
// {final time, return-every-step, internal step limit, interpolation on/off, fixed/variable step,
// accuracy, norm}, optional time-only event witnesses, and a generated history of <= 40 requests
// stepTo(report, scheduled) / stepBy, "handled event" reinitialize calls (no-op, state-modifying,
// terminating) interleaved. Generator preconditions (DESIGN C19): report >= getTime(),
// scheduled >= max(getTime(), getAdvancedTime()), final time set before initialize, every request
// bounded (finite min(report,scheduled,final) or step limit / return-every-step).
// Oracle: a model of the documented contract checked after EVERY return (clause list in notes/C19.md).
#include "pbt.h"
#include "anasys.h"
#include "SimTKmath.h"
#include <memory>
using namespace SimTK;
typedef Integrator::SuccessfulStepStatus St;

namespace {

const double Inf = std::numeric_limits<double>::infinity();
const double StateTol = 0.1;    // calibrated, see notes/C19.md

// deterministic parameter stream for the system's numbers (seeded from one tape word; seed 0 = canonical values)
struct Lcg { uint64_t s; explicit Lcg(uint32_t seed) : s(seed * 0x9E3779B97F4A7C15ull + 0x1234567ull) {}
    double u() { s += 0x9E3779B97F4A7C15ull; uint64_t z = s; z = (z ^ (z >> 30)) * 0xBF58476D1CE4E5B9ull; z = (z ^ (z >> 27)) * 0x94D049BB133111EBull; z ^= z >> 31; return (z >> 11) / 9007199254740992.0; }
    double r(double lo, double hi) { return lo + (hi - lo) * u(); } };

const char* integName(int w) { static const char* n[] = {"RungeKuttaMerson", "RungeKutta3", "RungeKutta2", "RungeKuttaFeldberg", "Verlet", "ExplicitEuler", "SemiExplicitEuler", "SemiExplicitEuler2", "CPodesBDF", "CPodesAdams"}; return n[w]; }
std::unique_ptr<Integrator> makeInteg(int w, const System& sys, double seeStep) {
    switch (w) {
        case 0: return std::unique_ptr<Integrator>(new RungeKuttaMersonIntegrator(sys));
        case 1: return std::unique_ptr<Integrator>(new RungeKutta3Integrator(sys));
        case 2: return std::unique_ptr<Integrator>(new RungeKutta2Integrator(sys));
        case 3: return std::unique_ptr<Integrator>(new RungeKuttaFeldbergIntegrator(sys));
        case 4: return std::unique_ptr<Integrator>(new VerletIntegrator(sys));
        case 5: return std::unique_ptr<Integrator>(new ExplicitEulerIntegrator(sys));
        case 6: return std::unique_ptr<Integrator>(new SemiExplicitEulerIntegrator(sys, seeStep));
        case 7: return std::unique_ptr<Integrator>(new SemiExplicitEuler2Integrator(sys));
        case 8: return std::unique_ptr<Integrator>(new CPodesIntegrator(sys, CPodes::BDF));
        default: return std::unique_ptr<Integrator>(new CPodesIntegrator(sys, CPodes::Adams));
    }
}
const char* stName(St s) {
    switch (s) { case Integrator::ReachedReportTime: return "ReachedReportTime"; case Integrator::ReachedEventTrigger: return "ReachedEventTrigger";
        case Integrator::ReachedScheduledEvent: return "ReachedScheduledEvent"; case Integrator::TimeHasAdvanced: return "TimeHasAdvanced";
        case Integrator::ReachedStepLimit: return "ReachedStepLimit"; case Integrator::EndOfSimulation: return "EndOfSimulation";
        case Integrator::StartOfContinuousInterval: return "StartOfContinuousInterval"; default: return "Invalid"; }
}

struct Opts {
    int integ = 0; bool hasFinal = false; double tFinal = Inf; bool every = false; int limit = 0; bool interp = true;
    bool accSet = false; double acc = 1e-3; bool fixed = false; double h = 0.01; bool infNorm = false;
    bool isCPodes() const { return integ >= 8; }
};
struct Req { int op; int rk, sk; double rv, sv; uint32_t mod; };   // raw choices; resolved against the live integrator

// "wide window" regime (half of the cases with witnesses): the event localization window accuracy x timescale(0.1) x
// requiredLocalizationTimeWindow is made as wide as or wider than an internal step (loose accuracy 1e-1..1e-2, required window
// 0.1..1, small fixed steps 1e-4..1e-3, short horizon), so that AbstractIntegratorRep::takeOneStep's "already localized" early
// exit is reached and must still keep pending report times out of the window.
struct Regime { bool wide = false; double acc = 0.1, h = 5e-4, horizon = 0.1; };

anasys::Spec makeSpec(pbt::Reader& g, std::vector<anasys::Witness>& wits, Regime& rg) {
    anasys::Spec s; uint32_t shape = g.w(); uint32_t seed = g.w(); Lcg L(seed);
    int nb = shape % 4, no = (shape >> 2) % 3, np = (shape >> 4) % 2; bool mix = (shape >> 5) & 1; int nw = ((shape >> 6) % 3 == 1) ? 1 + ((shape >> 8) & 1) : 0;
    if (nb + no + np == 0) no = 1;
    const bool canon = seed == 0;
    rg.wide = nw > 0 && ((shape >> 9) & 1);
    for (int i = 0; i < nb; ++i) { anasys::Block b; b.pair = canon ? (i % 2 == 0) : L.u() < 0.6; b.a = canon ? -1.0 : -L.r(0, 4); b.w = canon ? 2.0 : L.r(0.5, 6); if (!canon && L.u() < 0.2) b.a = 0; s.blocks.push_back(b); }
    int nz = s.nz();
    for (int i = 0; i < nz; ++i) s.z0.push_back(canon ? 1.0 : L.r(-2, 2));
    if (mix && nz >= 2) for (int k = 0; k < nz; ++k) { anasys::Givens gv; gv.i = k % nz; gv.j = (k + 1 + (int)(L.u() * (nz - 1))) % nz; gv.th = L.r(-3, 3); if (gv.i != gv.j) s.mix.push_back(gv); }
    for (int i = 0; i < no; ++i) { anasys::Osc o; o.omega = canon ? 2.0 : L.r(0.5, 6); s.oscs.push_back(o); s.q0.push_back(canon ? 1.0 : L.r(-1.5, 1.5)); s.u0.push_back(canon ? 0.0 : L.r(-2, 2)); }
    for (int i = 0; i < np; ++i) { anasys::Pend p; p.omega0 = canon ? 2.0 : L.r(0.5, 4); p.amp = canon ? 1.0 : L.r(0.1, 2.6); p.phase = canon ? 0.0 : L.r(0, 6); s.pends.push_back(p); }
    s.t0 = canon ? 0.0 : (L.u() < 0.5 ? 0.0 : L.r(0, 3));
    for (int i = 0; i < nw; ++i) { anasys::Witness w; w.kind = (L.u() < 0.5 || canon) ? anasys::Witness::TimeLinear : anasys::Witness::TimeSine;
        w.c = s.t0 + (canon ? 0.25 : L.r(0.01, 1.5)); w.omega = L.r(2, 12); int d = (int)(L.u() * 3); w.rising = d != 1; w.falling = d != 0; if (w.kind == anasys::Witness::TimeLinear) w.rising = true;
        w.window = std::pow(10.0, -L.r(0.5, 4));
        if (rg.wide) { w.c = s.t0 + (canon ? 0.0203 : L.r(0.003, 0.12)); w.omega = L.r(20, 200); w.window = canon ? 1.0 : std::pow(10.0, -L.r(0, 1)); }
        wits.push_back(w); }
    if (rg.wide) { rg.acc = canon ? 0.1 : std::pow(10.0, -L.r(1, 2)); rg.h = canon ? 5e-4 : std::pow(10.0, -L.r(3, 4)); rg.horizon = canon ? 0.06 : L.r(0.03, 0.25); }
    return s;
}

void property(const pbt::Tape& t, pbt::Ctx& ctx) {
    // ------------------------------------------------------------ decode
    pbt::Reader g(t[0]); Opts o;
    o.integ = g.pick(10);
    { static const char* force = getenv("C19_INTEG"); if (force) o.integ = atoi(force); }   // debugging aid only
    { int fk = g.pick(8); double fv = g.real(0.05, 2.5);   // 0,4,5: no final time; 1,6: random; 3,7: short; 2: final == initial time (t0 added below)
      if (fk == 1 || fk == 6) { o.hasFinal = true; o.tFinal = fv; } else if (fk == 3 || fk == 7) { o.hasFinal = true; o.tFinal = 0.05 + 0.1 * fv; } else if (fk == 2) { o.hasFinal = true; o.tFinal = 0.0; } }
    o.every = g.chance(1, 3);
    { uint32_t w = g.w(); if (w % 3 == 1) o.limit = 1 + (w >> 8) % 5; }
    o.interp = !g.chance(1, 3);
    { uint32_t w = g.w(); if (w != 0) { o.accSet = true; o.acc = std::pow(10.0, -(2 + (w % 4000) / 1000.0 * ((o.integ == 5 || o.integ == 7) ? 0.5 : 1.0))); } }
    { uint32_t w = g.w(); if (w % 4 == 1) { o.fixed = true; o.h = std::exp(std::log(2e-3) + (std::log(0.1) - std::log(2e-3)) * ((w >> 8) % 1000) / 1000.0); } }
    o.infNorm = g.chance(1, 4);
    std::vector<anasys::Witness> wits; Regime rg; anasys::Spec spec = makeSpec(g, wits, rg);
    if (o.hasFinal) o.tFinal += spec.t0;
    if (o.isCPodes()) rg.wide = false;
    if (rg.wide) { o.accSet = true; o.acc = rg.acc; o.fixed = true; o.h = rg.h; o.hasFinal = true; o.tFinal = spec.t0 + rg.horizon; }
    // Triggered events under CPodes are left to C22: with witnesses CPodes shows further deviations of its own (trigger pre-state
    // 1 ulp EARLIER than a report already returned at the crossing time; report time inside the reported window; CPODES'
    // internal time beyond the event window defeats the fake stop time) -- see notes/C19.md. The event-window clause of the
    // statement is therefore decided for the eight AbstractIntegratorRep integrators only.
    if (o.isCPodes()) wits.clear();
    const double seeStep = o.fixed ? o.h : 0.01;
    const bool fixedStep = o.fixed || o.integ == 6;

    std::vector<Req> reqs;
    for (size_t k = 1; k < t.size() && reqs.size() < 40; ++k) { pbt::Reader r(t[k]); Req q; q.op = r.pick(16); q.rk = r.pick(20); q.rv = r.real(0, 1); q.sk = r.pick(12); q.sv = r.real(0, 1); q.mod = r.w(); reqs.push_back(q); }

    // ------------------------------------------------------------ build
    anasys::AnaSystem sys(spec); anasys::EventLog log;
    for (size_t i = 0; i < wits.size(); ++i) sys.addEventHandler(new anasys::WitnessHandler(wits[i], (int)i, &log, anasys::Action(), spec.nq(), spec.nq()));
    State s0 = sys.initialState();
    std::unique_ptr<Integrator> integ = makeInteg(o.integ, sys, seeStep);
    if (o.hasFinal) integ->setFinalTime(o.tFinal);
    if (o.every) integ->setReturnEveryInternalStep(true);
    if (o.limit) integ->setInternalStepLimit(o.limit);
    integ->setAllowInterpolation(o.interp);
    if (o.accSet) integ->setAccuracy(o.acc);
    if (o.fixed && o.integ != 6) integ->setFixedStepSize(o.h);
    if (o.infNorm) integ->setUseInfinityNorm(true);
    if (ctx.wantDesc) {
        ctx.desc << "integrator=" << integName(o.integ) << " final=" << pbt::str(o.tFinal) << " every=" << o.every << " limit=" << o.limit << " interp=" << o.interp
                 << " acc=" << (o.accSet ? pbt::str(o.acc) : std::string("default")) << " fixedStep=" << (o.fixed ? pbt::str(o.h) : std::string("no")) << " infNorm=" << o.infNorm << "\n"
                 << "system: " << spec.describe() << "\n";
        for (auto& w : wits) ctx.desc << "witness: " << (w.kind == anasys::Witness::TimeLinear ? "t-c" : "sin(om(t-c))") << " c=" << pbt::str(w.c) << " om=" << pbt::str(w.omega) << " rising=" << w.rising << " falling=" << w.falling << " window=" << pbt::str(w.window) << "\n";
    }
    ctx.label(std::string("integ:") + integName(o.integ));
    if (o.hasFinal) ctx.label("opt:final"); if (o.every) ctx.label("opt:every"); if (o.limit) ctx.label("opt:limit"); if (!o.interp) ctx.label("opt:nointerp");
    if (o.fixed) ctx.label("opt:fixedstep"); if (!wits.empty()) ctx.label("opt:witnesses"); if (rg.wide) ctx.label("regime:wide-event-window");

    try { integ->initialize(s0); }
    catch (const std::exception& e) { ctx.reject("initialize-failed"); if (ctx.wantDesc) ctx.desc << "initialize threw: " << std::string(e.what()).substr(0, 200) << "\n"; return; }

    // ------------------------------------------------------------ run the history against the model
    anasys::Solution sol(spec);
    double tPrev = integ->getTime(); bool expectSOCI = true, over = false, lastInterpolated = false; St lastSt = Integrator::InvalidSuccessfulStepStatus;
    int classes = 0, atFinal = 0; bool stoppedKnown = false; double evLow = -Inf, evHigh = -Inf;   // event window the caller has been told about and not yet left
     bool cZero = false, cRepSched = false, cRepFinal = false, cLimitHit = false; double worstErr = 0; int nEoS = 0;
    bool ok = ctx.check(tPrev == spec.t0, "getTime() after initialize is not the initial time");
    const bool cp = o.isCPodes();
    // Known-finding sites (CPodes only; each is as narrow as the mechanism allows, see notes/C19.md):
    //  cpodes-stale-fake-tstop: interpolation OFF + final time: a request bounded below the final time arms a fake stop time
    //    in CPODES; the first later request whose bound reaches the final time does not re-arm the true one (dynamic site:
    //    `fakeArmed` and min(report,scheduled) >= final) -> the history stops being judged there.
    //  cpodes-advanced-passes-scheduled: return-every-step + interpolation allowed: a report at or before the scheduled time is
    //    served by interpolating back from an internal step that already passed the scheduled time (only the clause
    //    "advanced <= scheduled" of such ReachedReportTime returns is excluded).
    //  cpodes-final-at-interval-start: a continuous interval starts AT the final time (final == initial time, or a handler
    //    modified the state at the final time): CPODES gets tstop == t, h = 0, and runs past the final time.
    //  cpodes-default-step-limit: no step limit requested, but CPODES' default of 500 internal steps per call stays in force.
    bool fakeArmed = false;
    for (size_t k = 0; k < reqs.size() && ok && !over; ++k) {
        const Req& q = reqs[k];
        const double tNow = integ->getTime(), taNow = integ->getAdvancedTime(), lo = std::max(tNow, taNow);
        // --- "event handled" operations, only where a real caller (TimeStepper) performs them
        if (q.op >= 14 && (lastSt == Integrator::ReachedScheduledEvent || lastSt == Integrator::TimeHasAdvanced) && !lastInterpolated) {
            const bool canModify = spec.nz() > 0 || !spec.oscs.empty();     // pendulum components cannot be re-anchored
            if (q.op == 14 || q.mod % 8 != 7) {
                if (q.op == 14 || !canModify) { integ->reinitialize(Stage::Report, false); if (ctx.wantDesc) ctx.desc << "  [" << k << "] reinitialize(Report,false)\n"; ctx.label("op:reinit-noop"); }
                else {
                    State& adv = integ->updAdvancedState(); const int no = (int)spec.oscs.size();
                    double f = 0.5 + (q.mod >> 8) % 1000 / 1000.0;
                    if (spec.nz() > 0 && (q.mod & 1)) adv.updZ() *= f;
                    else if (no > 0) adv.updU()[(q.mod >> 4) % no] += f;
                    else adv.updZ() *= f;
                    integ->reinitialize(Stage::Position, false);
                    sol.restart(adv.getTime(), anasys::AnaSystem::yOf(adv));
                    expectSOCI = true; ctx.label("op:reinit-modified");
                    if (ctx.wantDesc) ctx.desc << "  [" << k << "] handler modified the state (f=" << f << "), reinitialize(Position,false)\n";
                }
            } else {
                integ->reinitialize(Stage::Report, true); ctx.label("op:handler-terminates");
                if (ctx.wantDesc) ctx.desc << "  [" << k << "] reinitialize(Report,shouldTerminate=true)\n";
                ok = ctx.check(integ->isSimulationOver(), "isSimulationOver() false after reinitialize(shouldTerminate=true)")
                  && ctx.check(integ->getTerminationReason() == Integrator::EventHandlerRequestedTermination, "termination reason is not EventHandlerRequestedTermination");
                bool threw = false; try { integ->stepTo(tNow + 1); } catch (const std::exception&) { threw = true; }
                ok = ok && ctx.check(threw, "stepTo after handler-requested termination did not throw");
                over = true; break;
            }
        }
        if (cp && o.hasFinal && expectSOCI && tNow == o.tFinal && ctx.known("cpodes-final-at-interval-start")) { ctx.label("excluded:cpodes-final-at-interval-start"); stoppedKnown = true; break; }
        // --- resolve the request against the live integrator (preconditions by construction)
        double report, sched;
        switch (q.rk) {
            case 9: case 10: case 11: report = tNow; break;
            case 12: case 13: report = o.tFinal; break;                                  // Inf when no final time
            case 14: case 15: report = o.hasFinal ? o.tFinal + q.rv : tNow + 0.3 * q.rv; break;
            case 16: report = Inf; break;
            case 17: report = taNow; break;
            case 18: report = tNow + 1e-12 * (1 + 999 * q.rv); break;
            case 19: report = tNow + 0.5 + q.rv; break;
            case 0: case 1: case 2: case 3: case 4:
                if (!rg.wide) { report = tNow + 0.3 * q.rv; break; }
                if (q.rk == 4) { report = tNow + 0.05 * q.rv; break; }
                {   // wide-window regime: a report strictly inside the internal step that contains a witness's crossing time
                    // (before or after the crossing, within one step size of it)
                    const anasys::Witness& w = wits[q.mod % wits.size()]; double c = w.c;
                    if (w.kind == anasys::Witness::TimeSine) { const double per = 3.141592653589793 / w.omega; double k = std::ceil((tNow - w.c) / per + 1e-9); c = w.c + std::max(0.0, k) * per; }   // next crossing
                    report = c + ((q.mod >> 2) & 1 ? 1.0 : -1.0) * o.h * q.rv; if (!(report > tNow)) report = tNow + o.h * (0.5 + 3 * q.rv);
                }
                break;
            case 7: case 8:   // aim at an event: a report just before / exactly at a witness's (first) crossing time
                if (!wits.empty()) { const anasys::Witness& w = wits[q.mod % wits.size()]; double d = (q.mod >> 3) % 4 == 0 ? 0.0 : std::pow(10.0, -3 - 8 * q.rv); report = w.c - d; if (!(report > tNow)) report = tNow + 0.3 * q.rv; break; }
                // fall through
            default: report = tNow + (rg.wide ? 0.05 : 0.3) * q.rv;
        }
        if (!(report >= tNow)) report = tNow;
        // after a trigger the trajectory continues from tHigh (= advanced time): no caller asks for a report strictly
        // inside the event window it has just been told about (report == tLow is documented as legal)
        if (report > evLow && report < evHigh) report = evHigh;
        switch (q.sk) {
            case 6: case 7: sched = report; break;
            case 8: sched = lo; break;
            case 9: case 10: sched = lo + 0.4 * q.sv; break;
            case 11: sched = o.tFinal; break;
            case 5:           // a scheduled event just after / exactly at a witness's crossing time
                if (!wits.empty()) { const anasys::Witness& w = wits[(q.mod >> 5) % wits.size()]; double d = (q.mod >> 8) % 4 == 0 ? 0.0 : std::pow(10.0, -3 - 8 * q.sv); sched = w.c + d; if (!(sched >= lo)) sched = Inf; break; }
                // fall through
            default: sched = Inf;
        }
        if (!(sched >= lo)) sched = lo;
        if (std::min(std::min(report, sched), o.tFinal) == Inf && !o.every && !o.limit) report = tNow + 0.3 * q.rv + 0.01;
        const bool useStepBy = (q.op == 12 || q.op == 13);
        double interval = 0, lim = Inf;
        if (useStepBy) {   // library: stepTo(t + interval, t + limit); model the same arithmetic, keep the preconditions
            interval = report - tNow; if (report == Inf) interval = Inf; report = tNow + interval;
            if (!(report >= tNow)) { interval = 0; report = tNow; }
            if (sched != Inf) { lim = sched - tNow; while (tNow + lim < lo) lim = std::nextafter(lim, Inf); sched = tNow + lim; }
        }
        const double bound = std::min(std::min(report, sched), o.tFinal);
        if (report == tNow) cZero = true; if (report == sched) cRepSched = true; if (report >= o.tFinal) cRepFinal = true;
        if (cp && !o.interp && o.hasFinal && !expectSOCI) {
            if (fakeArmed && std::min(report, sched) >= o.tFinal && ctx.known("cpodes-stale-fake-tstop")) { ctx.label("excluded:cpodes-stale-fake-tstop"); stoppedKnown = true; break; }
            if (std::min(report, sched) < o.tFinal) fakeArmed = true;
        }
        if (useStepBy) ctx.label("op:stepBy");
        const int steps0 = integ->getNumStepsTaken();
        St st; bool threw = false; std::string what;
        try { st = useStepBy ? integ->stepBy(interval, lim) : integ->stepTo(report, sched); }
        catch (const std::exception& e) { threw = true; what = e.what(); }
        if (ctx.wantDesc) ctx.desc << "  [" << k << "] t=" << pbt::str(tNow) << " ta=" << pbt::str(taNow) << (useStepBy ? " stepBy" : " stepTo") << "(report=" << pbt::str(report) << ", sched=" << pbt::str(sched) << ")";
        if (threw) {
            if (ctx.wantDesc) ctx.desc << " threw: " << what.substr(0, 160) << "\n";
            // Integrator::StepFailed is the documented clean failure (e.g. CPodes cannot meet the accuracy at a forced step size)
            if (cp && what.find("CPodes::step() returned an error") != std::string::npos ) { ctx.label(std::string("cpodes-step-failed:") + (o.fixed ? "fixed" : "variable") + (o.interp ? "" : "/nointerp") + (o.hasFinal ? "/final" : "") + (o.every ? "/every" : "") + (o.limit ? "/limit" : "") + (wits.empty() ? "" : "/wit")); ctx.reject("cpodes-step-failed"); return; }
            ctx.fail("stepTo threw unexpectedly: " + what.substr(0, 300)); return;
        }
        const double tt = integ->getTime(), ta = integ->getAdvancedTime(); const bool isInterp = integ->isStateInterpolated();
        const int dSteps = integ->getNumStepsTaken() - steps0;
        if (ctx.wantDesc) ctx.desc << " -> " << stName(st) << " t=" << pbt::str(tt) << " ta=" << pbt::str(ta) << " interpolated=" << isInterp << " steps=" << dSteps << "\n";
        ctx.label(std::string("st:") + stName(st));
        std::string why;
        auto bad = [&](const std::string& m) { if (why.empty()) why = m; };
        // Clauses that come from the step-communication state machine documented in IntegratorRep.h (each step reported at
        // most once, start-of-interval first, final state reported before EndOfSimulation, interpolation switch honoured --
        // "an Integrator ... may ignore this option") bind the eight AbstractIntegratorRep integrators; CPodesIntegrator only
        // approximates that machine ("contortions to squeeze CPodes into that mold"), so for CPodes they are recorded as
        // observations (labels cpodes-note:*), while every clause of the property statement binds CPodes too.
        auto soft = [&](const char* tag, const std::string& m) { if (cp) ctx.label(std::string("cpodes-note:") + tag); else bad(m); };
        // --- the contract
        // (a continuous interval that starts AT the final time may be closed at once by EndOfSimulation: CPodes does that, the
        //  statement only asks for EndOfSimulation exactly once at the final time)
        if (expectSOCI && st == Integrator::EndOfSimulation && tPrev == o.tFinal) ctx.label("hit:eos-instead-of-soci-at-final");
        else if (expectSOCI) { if (st != Integrator::StartOfContinuousInterval) soft("no-start-of-interval", "first return after initialize/reinitialize is not StartOfContinuousInterval"); else if (tt != tPrev) bad("StartOfContinuousInterval moved time"); }
        else if (st == Integrator::StartOfContinuousInterval) bad("StartOfContinuousInterval although no (re)initialization happened");
        if (tt < tPrev) bad("time decreased");
        if (tt > bound) bad("returned time beyond min(report, scheduled, final)");
        if (ta < tt) bad("advanced time earlier than returned time");
        if (ta > o.tFinal) bad("advanced state passed the final time");
        else if (ta > sched) {
            if (cp && o.every && o.interp && report <= sched && st == Integrator::ReachedReportTime && ctx.known("cpodes-advanced-passes-scheduled")) ctx.label("excluded:cpodes-advanced-passes-scheduled");
            else bad("advanced state passed the scheduled event");
        }
        if (!o.interp && ta > report && ta > taNow) soft("interp-off-advanced-past-report", "advanced beyond the report time although interpolation is disallowed");
        // (the pre-event state of a trigger is interpolated by definition: "this is the *before* state (interpolated)")
        if (!o.interp && isInterp && st != Integrator::ReachedEventTrigger && !(lastInterpolated && tt == tNow)) soft("interp-off-interpolated-state", "interpolated state returned although interpolation is disallowed");
        if (isInterp != (tt < ta)) bad("isStateInterpolated() inconsistent with getTime() < getAdvancedTime()");
        if (integ->getState().getTime() != tt) bad("getState().getTime() != getTime()");
        switch (st) {
            case Integrator::ReachedReportTime: if (!(tt == report || (report > o.tFinal && tt == o.tFinal))) bad("ReachedReportTime but time is neither the report time nor (report > final) the final time"); break;
            case Integrator::ReachedScheduledEvent: if (tt != sched) bad("ReachedScheduledEvent but time != scheduled time"); else if (isInterp) soft("scheduled-interpolated", "ReachedScheduledEvent with an interpolated state"); break;
            case Integrator::TimeHasAdvanced: if (!o.every) bad("TimeHasAdvanced without return-every-step"); else if (!(tt > tPrev)) {
                    // (CPodes: after a report that coincides with the current, already returned, time it replays its pending
                    //  return code and reports the same step again as TimeHasAdvanced)
                    soft("step-reported-twice", "TimeHasAdvanced but time did not advance"); } else if (isInterp) soft("time-advanced-interpolated", "TimeHasAdvanced with an interpolated state"); break;
            case Integrator::ReachedStepLimit:
                // known finding cpodes-default-step-limit: CPODES' built-in default of 500 internal steps per call is left in force
                // when the user set no limit ("If nSteps <= 0, the number of steps will be unlimited")
                if (!o.limit && cp && dSteps == 500 && ctx.known("cpodes-default-step-limit")) { ctx.label("excluded:cpodes-default-step-limit"); break; }
                if (!o.limit) bad("ReachedStepLimit without a step limit"); else if (dSteps != o.limit) bad("ReachedStepLimit after " + std::to_string(dSteps) + " internal steps, limit " + std::to_string(o.limit)); cLimitHit = true; break;
            case Integrator::EndOfSimulation:
                nEoS++;
                if (!o.hasFinal) bad("EndOfSimulation without a final time"); else if (tt != o.tFinal) bad("EndOfSimulation not at the final time");
                else if (tt != tPrev) soft("eos-before-final-state", "EndOfSimulation reported before the state at the final time had been returned");
                if (!integ->isSimulationOver()) bad("isSimulationOver() false after EndOfSimulation");
                else if (integ->getTerminationReason() != Integrator::ReachedFinalTime) bad("termination reason is not ReachedFinalTime");
                over = true; break;
            case Integrator::ReachedEventTrigger: {
                ctx.label("hit:trigger");
                if (wits.empty()) { bad("ReachedEventTrigger without any witness function"); break; }
                Vec2 w = integ->getEventWindow();
                if (w[0] != tt) bad("event window low != returned time"); else if (w[1] != ta) bad("event window high != advanced time"); else if (!(w[0] < w[1])) bad("empty event window");
                for (double x : {sched, o.tFinal}) if (x > w[0] && x < w[1]) bad("a scheduled/final time lies strictly inside the event window");
                if (report > w[0] && report < w[1]) {
                    // known finding event-window-later-report-inside: the window was localized in an EARLIER call (no internal step
                    // in this one: the trigger was pending behind an interpolated report at tLow) against the report time of that
                    // call; the report time of the present call was unknown then and may fall inside the window
                    if (dSteps == 0 && ctx.known("event-window-later-report-inside")) ctx.label("excluded:event-window-later-report-inside");
                    else bad("the report time lies strictly inside the event window");
                }
                if (sched < w[1] || o.tFinal < w[1]) bad("scheduled/final time before the end of the event window");
                if (integ->getTriggeredEvents().empty()) bad("ReachedEventTrigger with no triggered events");
                if (o.fixed && dSteps >= 1 && w[1] - w[0] >= 0.99 * o.h) ctx.label("hit:trigger-window-is-whole-step");
                break; }
            case Integrator::StartOfContinuousInterval: break;
            default: bad("invalid status returned");
        }
        if (st != Integrator::EndOfSimulation && integ->isSimulationOver()) bad("isSimulationOver() true without EndOfSimulation");
        // liveness of end-of-simulation: the statement says EndOfSimulation IS returned; a caller loops on
        // !isSimulationOver(). Once the state at the final time has been returned, EndOfSimulation must follow
        // within 3 further calls (AbstractIntegratorRep: the very next call; CPodes: one extra report may intervene).
        if (o.hasFinal && tt == o.tFinal && st != Integrator::EndOfSimulation && st != Integrator::ReachedEventTrigger && st != Integrator::StartOfContinuousInterval) { if (++atFinal > 3) soft("eos-late", "state at the final time returned 4 times without EndOfSimulation"); }
        if (o.limit && dSteps > o.limit) bad("more internal steps in one call than the step limit");
        if (o.every && dSteps > 1) soft("every-multi-step", "return-every-step but " + std::to_string(dSteps) + " internal steps were taken in one call");
        if (!o.every && !o.limit && (st == Integrator::ReachedReportTime) && report <= std::min(sched, o.tFinal) && tt != report) bad("ReachedReportTime earlier than the report time");
        // --- returned state = analytic solution at the returned time (loose: accuracy is C20's subject)
        {
            std::vector<double> ye = sol.eval(tt), y = anasys::AnaSystem::yOf(integ->getState()); double e = 0, sc = std::max(1.0, sol.scale(tt));
            for (size_t i = 0; i < y.size(); ++i) e = std::max(e, std::abs(y[i] - ye[i]) / sc);
            worstErr = std::max(worstErr, e);
            if (ctx.wantDesc) ctx.desc << "        state error vs analytic (scaled) " << e << "  last step size " << integ->getPreviousStepSizeTaken() << " next " << integ->getPredictedNextStepSize() << "\n";
        }
        if (!why.empty()) {
            std::ostringstream m; m.precision(17);
            m << integName(o.integ) << " request " << k << " (" << (useStepBy ? "stepBy" : "stepTo") << " report=" << report << " sched=" << sched << " final=" << o.tFinal << " every=" << o.every << " limit=" << o.limit << " interp=" << o.interp
              << ") returned " << stName(st) << " t=" << tt << " ta=" << ta << " tPrev=" << tPrev << ": " << why;
            ctx.fail(m.str()); ok = false; break;
        }
        if (isInterp) ctx.label("hit:interpolated-state");
        if (st == Integrator::ReachedEventTrigger) {   // do what TimeStepper does
            HandleEventsOptions ho(integ->getConstraintToleranceInUse()); HandleEventsResults hr;
            sys.handleEvents(integ->updAdvancedState(), Event::Cause::Triggered, integ->getTriggeredEvents(), ho, hr);
            integ->reinitialize(hr.getLowestModifiedStage(), false);
        }
        if (st == Integrator::ReachedEventTrigger) { evLow = tt; evHigh = ta; } else if (tt >= evHigh) { evLow = evHigh = -Inf; }
        tPrev = tt; expectSOCI = false; lastSt = st; lastInterpolated = isInterp;
    }
    if (!ok) return;
    if (stoppedKnown) ctx.label("history-truncated-at-known-site");
    if (over && nEoS) {
        bool threw = false; try { integ->stepTo(o.tFinal + 1); } catch (const std::exception&) { threw = true; }
        if (!ctx.check(threw, std::string(integName(o.integ)) + ": stepTo after EndOfSimulation did not throw")) return;
        if (!ctx.check(integ->isSimulationOver(), "isSimulationOver() no longer true after the refused stepTo")) return;
        ctx.label("hit:end-of-simulation");
    }
    // loose state check, only for error-controlled variable-step runs (fixed steps may be arbitrarily inaccurate)
    {
        static const bool calib = getenv("C19_CALIB") != nullptr;
        // order >= 2, error controlled; CPodes is left to C20 (its Adams variant loses accuracy after a tiny forced step with
        // interpolation off: known finding cpodes-adams-tiny-step-accuracy-loss of C20, first seen here as a 0.11 error at accuracy 2e-5)
        const bool judged = !fixedStep && o.accSet && o.acc <= 1e-4 && o.integ != 5 && o.integ != 7 && !cp;
        if (calib && judged) { char b[64]; snprintf(b, sizeof b, "calib:%s:1e%+03d", integName(o.integ), (int)std::floor(std::log10(worstErr + 1e-30))); ctx.label(b); fprintf(stderr, "CAL %s %g\n", integName(o.integ), worstErr); }
        if (judged && !calib) { ctx.label("state-vs-analytic-judged"); ctx.check(worstErr <= StateTol, std::string(integName(o.integ)) + ": returned state differs from the analytic solution at the returned time by " + pbt::str(worstErr) + " (scaled), tolerance " + pbt::str(StateTol)); }
    }
    classes = (int)cZero + (int)cRepSched + (int)cRepFinal + (int)cLimitHit + (int)o.every;
    if (cZero) ctx.label("req:zero-length"); if (cRepSched) ctx.label("req:report==sched"); if (cRepFinal) ctx.label("req:report>=final"); if (cLimitHit) ctx.label("hit:steplimit");
    ctx.nontrivial(classes >= 2);
}

anasys::Spec oscSpec(double w) { anasys::Spec s; s.oscs.push_back({w}); s.q0.push_back(1.0); s.u0.push_back(0.0); return s; }

pbt::Config config() {
    pbt::Config c; c.prop = "C19"; c.K = 12; c.minUnits = 3; c.caseTimeoutSecs = 60;
    c.quick = {4000, 25000, 40, 10}; c.thorough = {30000, 150000, 40, 200};
    c.rule = "rapidcheck tape -> integrator (RK Merson, RK3, RK2, RK Feldberg, Verlet, ExplicitEuler, SemiExplicitEuler, SemiExplicitEuler2, CPodes BDF, CPodes Adams) x options {final time none/random/short/== initial time, return-every-step, step limit 1..5, interpolation on/off, accuracy 1e-2..1e-6 or default, fixed step 2e-3..0.1, inf norm} x analytic system (0-3 linear z blocks with optional Givens mixing, 0-2 harmonic oscillators, 0-1 pendulum, 0-2 time-only event witnesses; half of the witness cases in the wide-window regime: accuracy 1e-1..1e-2, required localization window 0.1..1, fixed steps 1e-4..1e-3, horizon 0.03..0.25, crossing within 0.12 of the start, reports aimed strictly inside the step that contains a crossing) x history of 3..40 requests stepTo/stepBy(report, scheduled) with report in {now, now+x, tiny, advanced time, final, beyond final, +inf}, scheduled in {inf, == report, == max(now,advanced), later, final}, interleaved with TimeStepper-style reinitialize (no-op / state modified / terminate) after scheduled-event or time-advanced returns. Preconditions by construction: report >= getTime(), scheduled >= max(getTime(), getAdvancedTime()), no report strictly inside an event window already announced, every request bounded. Non-trivial: the history contains at least two of {report == scheduled, report >= final, step limit hit, return-every-step, zero-length request}.";
    c.assumptions = {"the contract model: public Integrator.h documentation + the property statement for all integrators; the step-communication state machine documented in IntegratorRep.h additionally for the eight AbstractIntegratorRep integrators (recorded as cpodes-note:* labels for CPodes)",
                     "Integrator::StepFailed from CPodes (forced step size, stepTo(+inf) as very first step) is a clean refusal",
                     "closed-form solutions of gen/anasys.h (state check is loose: 0.1 scaled, judged only for error-controlled order>=2 runs with accuracy <= 1e-4)"};
    c.requiredLabels = {"integ:RungeKuttaMerson", "integ:RungeKutta3", "integ:RungeKutta2", "integ:RungeKuttaFeldberg", "integ:Verlet", "integ:ExplicitEuler", "integ:SemiExplicitEuler", "integ:SemiExplicitEuler2", "integ:CPodesBDF", "integ:CPodesAdams",
                        "st:ReachedReportTime", "st:ReachedScheduledEvent", "st:TimeHasAdvanced", "st:ReachedStepLimit", "st:EndOfSimulation", "st:StartOfContinuousInterval", "st:ReachedEventTrigger",
                        "hit:interpolated-state", "hit:end-of-simulation", "req:report==sched", "req:report>=final", "req:zero-length", "op:reinit-modified", "op:handler-terminates", "opt:nointerp", "regime:wide-event-window", "hit:trigger-window-is-whole-step"};
    // ---- directed reproducers of the CPodes findings (each must FAIL while the defect exists)
    c.directed.push_back({"cpodes-stale-fake-tstop", "cpodes-stale-fake-tstop", [](pbt::Ctx& ctx) {
        anasys::AnaSystem sys(oscSpec(2)); State s0 = sys.initialState(); CPodesIntegrator integ(sys);
        integ.setAllowInterpolation(false); integ.setFinalTime(0.7); integ.initialize(s0);
        St a = integ.stepTo(0.0), b = integ.stepTo(0.3); double tb = integ.getTime(); St c2 = integ.stepTo(1.0); double tc = integ.getTime(); St d = integ.stepTo(1.0); double td = integ.getTime();
        ctx.desc << "CPodes, interpolation off, final 0.7: stepTo(0)->" << stName(a) << "; stepTo(0.3)->" << stName(b) << " t=" << tb << "; stepTo(1.0)->" << stName(c2) << " t=" << tc << "; stepTo(1.0)->" << stName(d) << " t=" << td << "\n";
        ctx.check(tb == 0.3 && c2 == Integrator::ReachedReportTime && tc == 0.7 && d == Integrator::EndOfSimulation && td == 0.7,
                  "after a report at 0.3 the request stepTo(1.0) with final time 0.7 returned " + std::string(stName(c2)) + " at t=" + pbt::str(tc) + " and then " + stName(d) + " at t=" + pbt::str(td) + " (expected the final time 0.7)");
    }});
    c.directed.push_back({"cpodes-advanced-passes-scheduled", "cpodes-advanced-passes-scheduled", [](pbt::Ctx& ctx) {
        anasys::AnaSystem sys(oscSpec(2)); State s0 = sys.initialState(); CPodesIntegrator integ(sys);
        integ.setReturnEveryInternalStep(true); integ.initialize(s0); integ.stepTo(0.0);
        double worst = 0, atSched = 0;
        for (int k = 0; k < 5; ++k) { double sched = integ.getAdvancedTime() + 1e-9; integ.stepTo(sched, sched); if (integ.getAdvancedTime() - sched > worst) { worst = integ.getAdvancedTime() - sched; atSched = sched; } while (integ.getTime() < integ.getAdvancedTime()) integ.stepTo(integ.getAdvancedTime(), Infinity); }
        ctx.desc << "CPodes, return-every-step: stepTo(report = scheduled = advanced + 1e-9): advanced state beyond the scheduled time by up to " << worst << " (scheduled " << atSched << ")\n";
        ctx.check(worst <= 0, "advanced state passed the scheduled event time " + pbt::str(atSched) + " by " + pbt::str(worst));
    }});
    c.directed.push_back({"cpodes-final-at-interval-start", "cpodes-final-at-interval-start", [](pbt::Ctx& ctx) {
        anasys::AnaSystem sys(oscSpec(2)); State s0 = sys.initialState(); CPodesIntegrator integ(sys);
        integ.setFinalTime(0.0); integ.initialize(s0);
        St a = integ.stepTo(0.0); St b = integ.stepTo(0.3); double tb = integ.getTime();
        ctx.desc << "CPodes, final time == initial time 0: stepTo(0)->" << stName(a) << "; stepTo(0.3)->" << stName(b) << " t=" << tb << "\n";
        ctx.check(tb <= 0.0, "final time 0 but stepTo(0.3) returned " + std::string(stName(b)) + " at t=" + pbt::str(tb));
    }});
    c.directed.push_back({"event-window-later-report-inside", "event-window-later-report-inside", [](pbt::Ctx& ctx) {
        anasys::AnaSystem sys(oscSpec(2)); anasys::Witness w; w.c = 0.25; w.window = 0.0016; sys.addEventHandler(new anasys::WitnessHandler(w, 0, nullptr, anasys::Action(), 1, 1));
        State s0 = sys.initialState(); RungeKuttaMersonIntegrator integ(sys); integ.initialize(s0);
        St a = integ.stepTo(0.0), b = integ.stepTo(0.25 - 1e-11), c2 = integ.stepTo(0.25);
        ctx.desc << "RK Merson, witness t-0.25: stepTo(0)->" << stName(a) << "; stepTo(0.25-1e-11)->" << stName(b) << " t=" << pbt::str(integ.getTime()) << "; stepTo(0.25)->" << stName(c2);
        if (c2 != Integrator::ReachedEventTrigger) { ctx.desc << " (no trigger: scenario not reached)\n"; return; }
        Vec2 win = integ.getEventWindow(); ctx.desc << " window (" << pbt::str(win[0]) << ", " << pbt::str(win[1]) << "]\n";
        ctx.check(!(0.25 > win[0] && 0.25 < win[1]), "report time 0.25 lies strictly inside the reported event window (" + pbt::str(win[0]) + ", " + pbt::str(win[1]) + "]");
    }});
    c.directed.push_back({"cpodes-default-step-limit", "cpodes-default-step-limit", [](pbt::Ctx& ctx) {
        anasys::AnaSystem sys(oscSpec(6)); State s0 = sys.initialState(); CPodesIntegrator integ(sys);
        integ.setAccuracy(1e-6); integ.initialize(s0); integ.stepTo(0.0);
        St a = integ.stepTo(200.0); int n = integ.getNumStepsTaken();
        ctx.desc << "CPodes, no step limit, accuracy 1e-6, oscillator omega=6: stepTo(200)->" << stName(a) << " t=" << integ.getTime() << " after " << n << " steps\n";
        ctx.check(a != Integrator::ReachedStepLimit, "ReachedStepLimit returned after " + std::to_string(n) + " internal steps although no step limit was set");
    }});
    return c;
}
} // namespace

PBT_MAIN(config(), property)
