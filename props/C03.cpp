// C03 -- Velocity kinematics is the time derivative of position kinematics (DESIGN.md 5, C03).
// Domain: mbgen trees (all mobilizer types, reversed, frame kinds, Euler/quaternion incl. unnormalised
// quaternions), random stations and udot.
// Oracle: (R/FD) for every body getBodyVelocity == (vee(Rdot R'), pdot) of getBodyTransform along
// q(t)=q+t*qdot; station velocity == d/dt station location; getMobilizerVelocity == d/dt getMobilizerTransform
// (in F). (D) calcQDot == multiplyByN(u) == state qdot; NInv*N*u = u (|q|^2 u for unnormalised quaternions, the
// convention documented in Rotation.h); N*NInv*qdot = qdot on range(N); calcQDotDot(udot) == N*udot + NDot*u
// == d/dt calcQDot along (q(t), u+t*udot); multiplyByNDot(x) == d/dt multiplyByN(x); adjointness of N, NInv,
// NDot with transpose=true.
#include "pbt.h"
#include "mbgen.h"
#include "refdyn.h"
using namespace SimTK;

namespace {
struct Rng { uint64_t s; double next() { s += 0x9E3779B97F4A7C15ull; uint64_t z = s; z = (z ^ (z >> 30)) * 0xBF58476D1CE4E5B9ull; z = (z ^ (z >> 27)) * 0x94D049BB133111EBull; z ^= z >> 31; return (z >> 11) / 9007199254740992.0 * 2 - 1; } };
std::string S(double a) { return pbt::str(a); }
Vec3 vee(const Mat33& W) { return Vec3(0.5 * (W(2, 1) - W(1, 2)), 0.5 * (W(0, 2) - W(2, 0)), 0.5 * (W(1, 0) - W(0, 1))); }

// (angular, linear) velocity of a frame from 5-point differences of its Transform
SpatialVec frameRate(const std::function<Transform(Real)>& X, Real h) {
    Transform X0 = X(0), Xp = X(h), Xm = X(-h), Xpp = X(2 * h), Xmm = X(-2 * h);
    Mat33 Rd = (8.0 * (Xp.R().asMat33() - Xm.R().asMat33()) - (Xpp.R().asMat33() - Xmm.R().asMat33())) / (12 * h);
    Vec3 pd = (8.0 * (Xp.p() - Xm.p()) - (Xpp.p() - Xmm.p())) / (12 * h);
    return SpatialVec(vee(Rd * ~X0.R().asMat33()), pd);
}

void property(const pbt::Tape& t, pbt::Ctx& ctx) {
    pbt::Reader g(t[0]);
    mbgen::Options opt; opt.maxBodies = 6; opt.allowUnnormalizedQuat = true;
    mbgen::ModelSpec spec = mbgen::decodeModel(t, 1, (int)t.size() - 1, g, opt);
    Rng rng{(uint64_t)g.w() * 0x100000001ull + 4242};
    if (ctx.wantDesc) spec.describe(ctx.desc);
    mbgen::labelModel(ctx, spec);

    mbgen::Built m(spec); m.finish(spec); m.setState(spec);
    State& s = m.state; const SimbodyMatterSubsystem& matter = m.matter;
    const int nu = s.getNU(), nq = s.getNQ(), NB = matter.getNumBodies();
    if (nu == 0) { ctx.reject("nu=0"); return; }
    m.sys.realize(s, Stage::Velocity);
    const Vector q0 = s.getQ(), u0 = s.getU(), qdot0 = s.getQDot();
    const Real us = refdyn::maxAbs(u0), eps = 2.220446049250313e-16;

    bool qdotNotU = false, anyRev = false, lineRevQuat = false;
    for (auto& b : spec.bodies) { if (mbgen::mobHasQuaternion(b.type)) qdotNotU = true; if (b.reversed) anyRev = true;
        if (b.reversed && !spec.euler && (b.type == mbgen::LineOrientation || b.type == mbgen::FreeLine)) lineRevQuat = true; }
    ctx.nontrivial((qdotNotU || anyRev) && us > 0);
    if (us == 0) ctx.label("u==0");
    // known finding: reversed Line mobilizers in quaternion mode (pose derivative inconsistent with reported velocity)
    const bool skipPoseFD = lineRevQuat && ctx.known("line-mobilizer-reversed-quaternion-qdot");
    if (skipPoseFD) ctx.label("excluded:line-rev-quat:pose-derivative");

    const Real h = 1e-3;
    auto stateAt = [&](Real tt) { State w = s; w.updQ() = q0 + tt * qdot0; m.sys.realize(w, Stage::Position); return w; };

    // ---- (R/FD) body, station and mobilizer velocities are pose derivatives
    if (!skipPoseFD) {
        State wp = stateAt(h), wm = stateAt(-h), wpp = stateAt(2 * h), wmm = stateAt(-2 * h);
        for (int b = 1; b < NB; ++b) {
            const MobilizedBody& mb = matter.getMobilizedBody(MobilizedBodyIndex(b));
            auto X = [&](Real tt) -> Transform { const State& w = tt == 0 ? s : tt == h ? wp : tt == -h ? wm : tt == 2 * h ? wpp : wmm; return mb.getBodyTransform(w); };
            SpatialVec Vfd = frameRate(X, h), V = mb.getBodyVelocity(s);
            Real sc = 1 + V[0].norm() + V[1].norm(), d = (Vfd[0] - V[0]).norm() + (Vfd[1] - V[1]).norm();
            if (!(d <= 1e-7 * sc * (1 + us * us))) { ctx.fail("body " + std::to_string(b) + ": reported velocity " + S(V[0][0]) + "," + S(V[0][1]) + "," + S(V[0][2]) + " | " + S(V[1][0]) + "," + S(V[1][1]) + "," + S(V[1][2]) + " differs from d/dt of its reported pose by " + S(d)); return; }
            Vec3 st(rng.next(), rng.next(), rng.next());
            auto P = [&](Real tt) -> Transform { const State& w = tt == 0 ? s : tt == h ? wp : tt == -h ? wm : tt == 2 * h ? wpp : wmm; return Transform(mb.findStationLocationInGround(w, st)); };
            Vec3 vfd = frameRate(P, h)[1], v = mb.findStationVelocityInGround(s, st);
            if (!((vfd - v).norm() <= 1e-7 * (1 + v.norm()) * (1 + us * us))) { ctx.fail("body " + std::to_string(b) + ": station velocity differs from d/dt of station location by " + S((vfd - v).norm())); return; }
            auto XFM = [&](Real tt) -> Transform { const State& w = tt == 0 ? s : tt == h ? wp : tt == -h ? wm : tt == 2 * h ? wpp : wmm; return mb.getMobilizerTransform(w); };
            SpatialVec VFMfd = frameRate(XFM, h), VFM = mb.getMobilizerVelocity(s);
            Real d2 = (VFMfd[0] - VFM[0]).norm() + (VFMfd[1] - VFM[1]).norm();
            if (!(d2 <= 1e-7 * (1 + VFM[0].norm() + VFM[1].norm()) * (1 + us * us))) { ctx.fail("body " + std::to_string(b) + " (" + mbgen::mobName(spec.bodies[b - 1].type) + "): getMobilizerVelocity differs from d/dt of getMobilizerTransform by " + S(d2)); return; }
        }
    }
    // ---- (D) N, NInv
    {
        Vector qd; matter.calcQDot(s, u0, qd);
        Vector Nu; matter.multiplyByN(s, false, u0, Nu);
        if (!ctx.check(qd.size() == nq && Nu.size() == nq, "calcQDot/multiplyByN wrong size")) return;
        for (int i = 0; i < nq; ++i) { Real tol = 1e3 * eps * (1 + std::abs(qdot0[i]));
            if (!(std::abs(qd[i] - qdot0[i]) <= tol && std::abs(Nu[i] - qdot0[i]) <= tol)) { ctx.fail("qdot[" + std::to_string(i) + "]: state " + S(qdot0[i]) + " calcQDot " + S(qd[i]) + " multiplyByN(u) " + S(Nu[i])); return; } }
        Vector back; matter.multiplyByNInv(s, false, Nu, back);
        if (!ctx.check(back.size() == nu, "multiplyByNInv wrong size")) return;
        // expected: u, except |q|^2 u on the mobilities of quaternion mobilizers (documented convention)
        Vector expect = u0;
        for (size_t k = 0; k < spec.bodies.size(); ++k) { const mbgen::BodySpec& b = spec.bodies[k]; if (!mbgen::mobHasQuaternion(b.type) || spec.euler) continue;
            const MobilizedBody& mb = m.mb[k + 1]; Real n2 = 0; for (int i = 0; i < 4; ++i) n2 += b.q[i] * b.q[i];
            int us0 = mb.getFirstUIndex(s), rotU = (b.type == mbgen::LineOrientation || b.type == mbgen::FreeLine) ? 2 : 3;
            for (int i = 0; i < rotU; ++i) expect[us0 + i] *= n2; }
        for (int i = 0; i < nu; ++i) if (!(std::abs(back[i] - expect[i]) <= 1e4 * eps * (1 + us))) { ctx.fail("NInv*N*u[" + std::to_string(i) + "]=" + S(back[i]) + " expected " + S(expect[i])); return; }
        if (!spec.unnormQuat) {   // N*NInv is the identity on range(N)
            Vector again; matter.multiplyByN(s, false, back, again);
            for (int i = 0; i < nq; ++i) if (!(std::abs(again[i] - Nu[i]) <= 1e4 * eps * (1 + us))) { ctx.fail("N*NInv*qdot != qdot at " + std::to_string(i)); return; }
        }
        // adjointness  <y, N x> = <N' y, x>, same for NInv and NDot
        Vector x(nu), y(nq); for (int i = 0; i < nu; ++i) x[i] = rng.next(); for (int i = 0; i < nq; ++i) y[i] = rng.next();
        Vector Nx, Nty, NIy, NItx, NDx, NDty;
        matter.multiplyByN(s, false, x, Nx); matter.multiplyByN(s, true, y, Nty);
        matter.multiplyByNInv(s, false, y, NIy); matter.multiplyByNInv(s, true, x, NItx);
        matter.multiplyByNDot(s, false, x, NDx); matter.multiplyByNDot(s, true, y, NDty);
        Real a1 = ~y * Nx, a2 = ~Nty * x, b1 = ~x * NIy, b2 = ~NItx * y, c1 = ~y * NDx, c2 = ~NDty * x;
        Real tolA = 1e4 * eps * (nq + nu) * (1 + us);
        if (!ctx.check(std::abs(a1 - a2) <= tolA * 3, "N transpose is not the adjoint: " + S(a1) + " vs " + S(a2))) return;
        if (!ctx.check(std::abs(b1 - b2) <= tolA * 3, "NInv transpose is not the adjoint: " + S(b1) + " vs " + S(b2))) return;
        if (!ctx.check(std::abs(c1 - c2) <= tolA * 3, "NDot transpose is not the adjoint: " + S(c1) + " vs " + S(c2))) return;
    }
    // ---- (D/FD) qdotdot = N udot + NDot u = d/dt qdot; NDot = d/dt N
    {
        Vector udot(nu); for (int i = 0; i < nu; ++i) udot[i] = 2 * rng.next();
        Vector qdd; matter.calcQDotDot(s, udot, qdd);
        Vector Nud, NDu; matter.multiplyByN(s, false, udot, Nud); matter.multiplyByNDot(s, false, u0, NDu);
        for (int i = 0; i < nq; ++i) if (!(std::abs(qdd[i] - (Nud[i] + NDu[i])) <= 1e4 * eps * (1 + std::abs(qdd[i]) + us * us))) { ctx.fail("calcQDotDot[" + std::to_string(i) + "]=" + S(qdd[i]) + " != N*udot + NDot*u = " + S(Nud[i] + NDu[i])); return; }
        // d/dt of calcQDot along q(t) = q + t qdot + t^2/2 qdd, u(t) = u + t udot
        Vector x(nu); for (int i = 0; i < nu; ++i) x[i] = rng.next();
        auto qdotAt = [&](Real tt, Vector& qd, Vector& Nx) { State w = s; w.updQ() = q0 + tt * qdot0 + (0.5 * tt * tt) * qdd; Vector ut = u0 + tt * udot; w.updU() = ut; m.sys.realize(w, Stage::Velocity); qd = w.getQDot(); matter.multiplyByN(w, false, x, Nx); };
        Vector qp, qm, qpp, qmm, np, nm, npp, nmm; qdotAt(h, qp, np); qdotAt(-h, qm, nm); qdotAt(2 * h, qpp, npp); qdotAt(-2 * h, qmm, nmm);
        Vector qddFD = (8.0 * (qp - qm) - (qpp - qmm)) / (12 * h), NDxFD = (8.0 * (np - nm) - (npp - nmm)) / (12 * h);
        Vector NDx; matter.multiplyByNDot(s, false, x, NDx);
        Real sc = 1 + refdyn::maxAbs(qdd) + us * us;
        for (int i = 0; i < nq; ++i) {
            if (!(std::abs(qddFD[i] - qdd[i]) <= 1e-7 * sc * (1 + us))) { ctx.fail("calcQDotDot[" + std::to_string(i) + "]=" + S(qdd[i]) + " differs from d/dt qdot = " + S(qddFD[i])); return; }
            if (!(std::abs(NDxFD[i] - NDx[i]) <= 1e-7 * sc * (1 + us))) { ctx.fail("multiplyByNDot(x)[" + std::to_string(i) + "]=" + S(NDx[i]) + " differs from d/dt multiplyByN(x) = " + S(NDxFD[i])); return; }
        }
    }
}

pbt::Config config() {
    pbt::Config c; c.prop = "C03"; c.K = mbgen::K; c.minUnits = 1;
    c.quick = {1500, 6000, 12, 25}; c.thorough = {15000, 50000, 12, 240};
    c.rule = "rapidcheck tape -> mbgen tree (1..6 bodies, 18 mobilizer types, forward/reversed, frame specialisations, quaternion (incl. unnormalised, norm 0.5..2) or Euler mode, non-singular q, u in [-2,2] or zero), tape-seeded stations / udot / test vectors. Non-trivial: some mobilizer with qdot != u (Ball, Free, Ellipsoid, LineOrientation, FreeLine) or reversed, and u != 0; distinct by tape hash.";
    c.assumptions = {"5-point central differences with h=1e-3 along q(t)=q+t*qdot; tolerance 1e-7 relative (probe AG: 3e-12 observed)", "for unnormalised quaternions NInv*N = |q|^2 I (documented in Rotation.h) is what is demanded"};
    c.requiredLabels = {"mob:Ball/rev/quat", "mob:Free/rev/euler", "mob:Ellipsoid/rev/quat", "mob:LineOrientation/fwd/quat", "mob:FreeLine/fwd/euler", "mob:Bushing/rev", "mob:SphericalCoords/rev", "mob:CantileverFreeBeam/fwd"};
    c.directed.push_back({"reversed-freeline-quaternion", "line-mobilizer-reversed-quaternion-qdot", [](pbt::Ctx& ctx) {
        MultibodySystem sys; SimbodyMatterSubsystem matter(sys);
        Body::Rigid body(MassProperties(1, Vec3(0), Inertia(1, 1, 1)));
        MobilizedBody::FreeLine fl(matter.Ground(), Transform(), body, Transform(), MobilizedBody::Reverse);
        State s = sys.realizeTopology(); sys.realizeModel(s);
        Vector q(7); q = 0; q[0] = -0.70710678118654746; q[3] = -0.70710678118654746; s.updQ() = q;
        Vector u(5); u = 0; u[1] = -2; u[4] = -2; s.updU() = u;
        sys.realize(s, Stage::Velocity);
        Vector q0 = s.getQ(), qd = s.getQDot(); Real h = 1e-3;
        auto X = [&](Real tt) -> Transform { State w = s; w.updQ() = q0 + tt * qd; sys.realize(w, Stage::Position); return fl.getBodyTransform(w); };
        SpatialVec Vfd = frameRate(X, h), V = fl.getBodyVelocity(s);
        Real d = (Vfd[0] - V[0]).norm() + (Vfd[1] - V[1]).norm();
        ctx.desc << "reversed FreeLine, quaternion mode: reported V=" << V << " d/dt pose=" << Vfd << "\n";
        ctx.check(d <= 1e-6, "reversed FreeLine (quaternion): reported body velocity differs from d/dt of reported pose by " + S(d));
    }});
    return c;
}
} // namespace

PBT_MAIN(config(), property)
