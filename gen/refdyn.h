// refdyn.h -- independent kinematics/dynamics reference ("Kane's equations from
// kinematics", DESIGN.md 3.3) and finite-difference helpers (3.4).
// Uses only REPORTED body poses/velocities and the bodies' mass properties;
// shares no code with the library's recursive algorithms.
#pragma once
#include "Simbody.h"
#include <functional>
#include <vector>

namespace refdyn {
using namespace SimTK;

// Spatial inertia of a body about its ORIGIN, expressed in Ground.
struct SI { Mat33 I; Vec3 mc; Real m; };
inline SI spatialInertiaInG(const MassProperties& mp, const Rotation& R_GB) {
    SI s; s.m = mp.getMass(); s.mc = s.m * (R_GB * mp.getMassCenter());
    Mat33 Ib = mp.getInertia().toMat33();      // about body origin, in B
    s.I = R_GB * Ib * ~R_GB; return s;
}
// momentum = SI * V  ([I w + mc x v ; m v - mc x w])
inline SpatialVec mul(const SI& s, const SpatialVec& V) { return SpatialVec(s.I * V[0] + s.mc % V[1], s.m * V[1] - s.mc % V[0]); }
inline Real dot(const SpatialVec& a, const SpatialVec& b) { return ~a[0] * b[0] + ~a[1] * b[1]; }
// velocity-dependent ("gyroscopic") spatial force at the body origin: d/dt(SI*V) - SI*A
inline SpatialVec gyro(const SI& s, const SpatialVec& V) { const Vec3& w = V[0]; return SpatialVec(w % (s.I * w), w % (w % s.mc)); }

inline std::vector<SI> bodyInertias(const SimbodyMatterSubsystem& matter, const State& s) {
    int NB = matter.getNumBodies(); std::vector<SI> si(NB);
    for (int b = 1; b < NB; ++b) { const MobilizedBody& mb = matter.getMobilizedBody(MobilizedBodyIndex(b)); si[b] = spatialInertiaInG(mb.getBodyMassProperties(s), mb.getBodyRotation(s)); }
    si[0].I = Mat33(0); si[0].mc = Vec3(0); si[0].m = 0;
    return si;
}
inline std::vector<SpatialVec> bodyVelocities(const SimbodyMatterSubsystem& matter, const State& s) {
    int NB = matter.getNumBodies(); std::vector<SpatialVec> V(NB);
    for (int b = 0; b < NB; ++b) V[b] = matter.getMobilizedBody(MobilizedBodyIndex(b)).getBodyVelocity(s);
    return V;
}
// Reference Jacobian: J[i][b] = V_GB with u = e_i (velocities are linear in u). Works on a copy.
inline std::vector<std::vector<SpatialVec>> referenceJacobian(const MultibodySystem& sys, const SimbodyMatterSubsystem& matter, const State& s) {
    int nu = s.getNU(); std::vector<std::vector<SpatialVec>> J(nu);
    State t = s;
    for (int i = 0; i < nu; ++i) { t.updU() = 0; t.updU()[i] = 1; sys.realize(t, Stage::Velocity); J[i] = bodyVelocities(matter, t); }
    return J;
}
inline Matrix referenceM(const std::vector<std::vector<SpatialVec>>& J, const std::vector<SI>& si) {
    int nu = (int)J.size(), NB = (int)si.size(); Matrix M(nu, nu); M = 0;
    for (int j = 0; j < nu; ++j) for (int b = 1; b < NB; ++b) { SpatialVec P = mul(si[b], J[j][b]); for (int i = 0; i < nu; ++i) M(i, j) += dot(J[i][b], P); }
    return M;
}
// 5-point central difference of a vector-valued function of one variable
template <class T> inline T diff5(const std::function<T(Real)>& f, Real h) { return (8.0 * (f(h) - f(-h)) - (f(2 * h) - f(-2 * h))) / (12 * h); }

// Body accelerations A_GB = d/dt V_GB along the motion q(t), u(t) = u + t*udot, by 5-point differences.
// q(t) is advanced with the library's qdot and qdotdot (second-order Taylor; error O(h^2)*third derivative enters
// the velocity only at O(h^3) after differencing) -- callers validate qdot/qdotdot separately (C03).
inline std::vector<SpatialVec> referenceAccelerations(const MultibodySystem& sys, const SimbodyMatterSubsystem& matter, const State& s, const Vector& udot, Real h = 1e-3) {
    int NB = matter.getNumBodies();
    Vector q = s.getQ(), u = s.getU(), qdot = s.getQDot(), qdd; matter.calcQDotDot(s, udot, qdd);
    auto velAt = [&](Real t) { State w = s; w.updQ() = q + t * qdot + (0.5 * t * t) * qdd; w.updU() = u + t * udot; sys.realize(w, Stage::Velocity); return bodyVelocities(matter, w); };
    std::vector<SpatialVec> Vp = velAt(h), Vm = velAt(-h), Vpp = velAt(2 * h), Vmm = velAt(-2 * h), A(NB);
    for (int b = 0; b < NB; ++b) A[b] = (8.0 * (Vp[b] - Vm[b]) - (Vpp[b] - Vmm[b])) / (12 * h);
    return A;
}
// Kane residual: r_i = sum_b J_ib . ( SI_b A_b + gyro_b - F_b ) - f_i
inline Vector referenceResidual(const std::vector<std::vector<SpatialVec>>& J, const std::vector<SI>& si, const std::vector<SpatialVec>& V,
                                const std::vector<SpatialVec>& A, const Vector_<SpatialVec>& F, const Vector& f) {
    int nu = (int)J.size(), NB = (int)si.size(); Vector r(nu); r = 0;
    for (int b = 1; b < NB; ++b) { SpatialVec tot = mul(si[b], A[b]) + gyro(si[b], V[b]) - F[b]; for (int i = 0; i < nu; ++i) r[i] += dot(J[i][b], tot); }
    for (int i = 0; i < nu; ++i) r[i] -= f[i];
    return r;
}
inline Real maxAbs(const Vector& v) { Real m = 0; for (int i = 0; i < v.size(); ++i) m = std::max(m, std::abs(v[i])); return m; }
inline Real maxAbs(const Matrix& M) { Real m = 0; for (int i = 0; i < M.nrow(); ++i) for (int j = 0; j < M.ncol(); ++j) m = std::max(m, std::abs(M(i, j))); return m; }
// largest / smallest eigenvalue estimate of an SPD matrix via (my own) Jacobi rotations
inline void symEig(Matrix A, std::vector<Real>& ev) {
    int n = A.nrow();
    for (int sweep = 0; sweep < 60; ++sweep) {
        Real off = 0; for (int i = 0; i < n; ++i) for (int j = i + 1; j < n; ++j) off += A(i, j) * A(i, j);
        if (off < 1e-300) break;
        for (int p = 0; p < n; ++p) for (int q = p + 1; q < n; ++q) {
            if (std::abs(A(p, q)) < 1e-300) continue;
            Real th = (A(q, q) - A(p, p)) / (2 * A(p, q)), t = (th >= 0 ? 1 : -1) / (std::abs(th) + std::sqrt(th * th + 1)), c = 1 / std::sqrt(t * t + 1), sn = t * c;
            for (int k = 0; k < n; ++k) { Real akp = A(k, p), akq = A(k, q); A(k, p) = c * akp - sn * akq; A(k, q) = sn * akp + c * akq; }
            for (int k = 0; k < n; ++k) { Real apk = A(p, k), aqk = A(q, k); A(p, k) = c * apk - sn * aqk; A(q, k) = sn * apk + c * aqk; }
        }
    }
    ev.resize(n); for (int i = 0; i < n; ++i) ev[i] = A(i, i);
    std::sort(ev.begin(), ev.end());
}
} // namespace refdyn
