// contactgen.h -- contact scenarios for C37 / C13 / C12 (owner: forceb).
//
// A scenario = an mbgen tree (few bodies; the last body B carries the "probe" surface, another body or Ground (A)
// carries the "base" surface) + one compliant-contact element + a DESIGNED relative pose of the two surfaces around
// the touching configuration (signed depth log-dense near 0, both signs) + a DESIGNED relative velocity at the
// contact (approach / rebound / slip magnitude relative to the transition velocity / spin) when B has a 6-dof
// mobilizer.  The relative pose is realised independently of the tree: the tree is built once without contact
// geometry to learn the body poses X_GA, X_GB at the generated q, then built again with the probe surface mounted
// at X_BS2 = ~X_GB * X_GA * X_AS1 * X_S1S2(designed).
//
// Tape layout (K = mbgen::K words per segment): t[0] global, t[1] surfaces+materials, t[2] element parameters
// and second probe, t[3..] body units.
#pragma once
#include "pbt.h"
#include "mbgen.h"
#include <memory>

namespace cgen {
using namespace SimTK;

enum Kind { HC = 0, EFF, HertzCirc, HertzEll, CcsEF, CcsBrick, Smooth, ExpSpring, NumKinds };
inline const char* kindName(int k) { static const char* n[] = {"HuntCrossleyForce", "ElasticFoundationForce", "CCS-HertzCircular", "CCS-HertzElliptical", "CCS-ElasticFoundation", "CCS-BrickHalfSpace", "SmoothSphereHalfSpaceForce", "ExponentialSpringForce"}; return k >= 0 && k < NumKinds ? n[k] : "?"; }
enum Shape { ShHalfSpace = 0, ShSphere, ShEllipsoid, ShBrick, ShMesh };
inline const char* shapeName(int s) { static const char* n[] = {"halfspace", "sphere", "ellipsoid", "brick", "mesh"}; return s >= 0 && s <= 4 ? n[s] : "?"; }

struct Material { double E = 1e5, c = 0, us = 0, ud = 0, uv = 0, h = 0.1; };
struct Surf { int shape = ShSphere; double R = 0.5; Vec3 dims = Vec3(0.5); int meshRes = 1; Material mat; int body = 0; Transform X_BS; };

// ---- triangle mesh: octahedron subdivided `res` times onto the unit sphere, scaled by dims (convex, outward CCW)
struct MeshData { std::vector<Vec3> V; std::vector<int> F; int nFaces() const { return (int)F.size() / 3; }
    Vec3 centroid(int f) const { return (V[F[3*f]] + V[F[3*f+1]] + V[F[3*f+2]]) / 3; }
    double area(int f) const { return 0.5 * ((V[F[3*f+1]] - V[F[3*f]]) % (V[F[3*f+2]] - V[F[3*f]])).norm(); } };
inline MeshData makeOcta(int res, const Vec3& dims) {
    MeshData m; m.V = {Vec3(1,0,0),Vec3(-1,0,0),Vec3(0,1,0),Vec3(0,-1,0),Vec3(0,0,1),Vec3(0,0,-1)};
    std::vector<int> F = {0,2,4, 2,1,4, 1,3,4, 3,0,4, 2,0,5, 1,2,5, 3,1,5, 0,3,5};
    for (int it = 0; it < res; ++it) {
        std::map<std::pair<int,int>, int> mid; std::vector<int> G;
        auto M = [&](int a, int b) { auto k = std::make_pair(std::min(a, b), std::max(a, b)); auto f = mid.find(k); if (f != mid.end()) return f->second;
            Vec3 p = (m.V[a] + m.V[b]) / 2; p = p / p.norm(); m.V.push_back(p); return mid[k] = (int)m.V.size() - 1; };
        for (size_t f = 0; f + 2 < F.size(); f += 3) { int a = F[f], b = F[f+1], c = F[f+2], ab = M(a, b), bc = M(b, c), ca = M(c, a);
            int add[] = {a, ab, ca, ab, b, bc, ca, bc, c, ab, bc, ca}; G.insert(G.end(), add, add + 12); }
        F = G;
    }
    for (auto& v : m.V) v = Vec3(v[0] * dims[0], v[1] * dims[1], v[2] * dims[2]);
    m.F = F; return m;
}
// support distance of a shape along unit direction d (in the surface frame)
inline double support(const Surf& s, const MeshData* mesh, const Vec3& d) {
    switch (s.shape) {
        case ShSphere: return s.R;
        case ShEllipsoid: return Vec3(s.dims[0] * d[0], s.dims[1] * d[1], s.dims[2] * d[2]).norm();
        case ShBrick: return s.dims[0] * std::fabs(d[0]) + s.dims[1] * std::fabs(d[1]) + s.dims[2] * std::fabs(d[2]);
        case ShMesh: { double h = -1e300; for (auto& v : mesh->V) h = std::max(h, (double)(~v * d)); return h; }
        default: return 0;
    }
}

// ---- brute-force queries on a closed triangle mesh (mesh frame): nearest surface point, inside by ray parity (3 rays)
inline Vec3 closestPointOnTriangle(const Vec3& p, const Vec3& a, const Vec3& b, const Vec3& c) {
    Vec3 ab = b - a, ac = c - a, ap = p - a; Real d1 = ~ab * ap, d2 = ~ac * ap; if (d1 <= 0 && d2 <= 0) return a;
    Vec3 bp = p - b; Real d3 = ~ab * bp, d4 = ~ac * bp; if (d3 >= 0 && d4 <= d3) return b;
    Real vc = d1 * d4 - d3 * d2; if (vc <= 0 && d1 >= 0 && d3 <= 0) return a + (d1 / (d1 - d3)) * ab;
    Vec3 cp = p - c; Real d5 = ~ab * cp, d6 = ~ac * cp; if (d6 >= 0 && d5 <= d6) return c;
    Real vb = d5 * d2 - d1 * d6; if (vb <= 0 && d2 >= 0 && d6 <= 0) return a + (d2 / (d2 - d6)) * ac;
    Real va = d3 * d6 - d5 * d4; if (va <= 0 && (d4 - d3) >= 0 && (d5 - d6) >= 0) return b + ((d4 - d3) / ((d4 - d3) + (d5 - d6))) * (c - b);
    Real den = 1 / (va + vb + vc); return a + (vb * den) * ab + (vc * den) * ac;
}
struct MeshQuery { Vec3 nearest; Real dist = 0; bool inside = false, ambiguous = false; };
inline MeshQuery queryMesh(const MeshData& m, const Vec3& p) {
    MeshQuery q; q.dist = Infinity;
    static const Vec3 dirs[3] = {Vec3(0.5773, 0.1931, 0.7934), Vec3(-0.3127, 0.8911, -0.3287), Vec3(0.2113, -0.6241, -0.7522)};
    int cross[3] = {0, 0, 0};
    for (int f = 0; f < m.nFaces(); ++f) {
        const Vec3& a = m.V[m.F[3*f]]; const Vec3& b = m.V[m.F[3*f+1]]; const Vec3& c = m.V[m.F[3*f+2]];
        Vec3 n = closestPointOnTriangle(p, a, b, c); Real d = (n - p).norm(); if (d < q.dist) { q.dist = d; q.nearest = n; }
        Vec3 e1 = b - a, e2 = c - a, sv = p - a;
        for (int k = 0; k < 3; ++k) { Vec3 h = dirs[k] % e2; Real det = ~e1 * h; if (std::fabs(det) < 1e-14) continue; Real fi = 1 / det, u = fi * (~sv * h); if (u < 0 || u > 1) continue;
            Vec3 qq = sv % e1; Real v = fi * (~dirs[k] * qq); if (v < 0 || u + v > 1) continue; if (fi * (~e2 * qq) > 0) ++cross[k]; }
    }
    int in = (cross[0] & 1) + (cross[1] & 1) + (cross[2] & 1); q.inside = in >= 2; q.ambiguous = (in == 1 || in == 2);
    return q;
}

struct Scenario {
    int kind = HC; mbgen::ModelSpec spec; int nb = 1;
    int A = 0, B = 1, D = -1;            // bodies of base, probe, second probe (-1: none)
    Surf s1, s2, s3; bool swapOrder = false;
    MeshData mesh; bool meshOnBase = false;   // the mesh of EF scenarios (the BASE mesh in mesh-on-mesh scenarios)
    MeshData mesh2; bool meshMesh = false;    // mesh-on-mesh (ElasticFoundationForce): mesh2 = probe mesh
    bool paramBase = false, paramProbe = false;   // which surfaces get ElasticFoundationForce::setBodyParameters
    const MeshData& meshOf(bool probe) const { return (probe && meshMesh) ? mesh2 : mesh; }
    double vt = 0.01;
    double depth2 = 0.01, depth3 = 0.01; Rotation R12, R13; Vec3 lat2 = Vec3(0), lat3 = Vec3(0); Vec3 dir2 = Vec3(0, 0, 1), dir3 = Vec3(0, 0, -1);
    int velMode = 0; double xdotT = 1, slipT = 0.01, slipAng = 0; Vec3 spinT = Vec3(0);
    double cf = 1e-5, bd = 300, bv = 50;   // smooth
    // exponential spring
    double d0 = 0.0065905, d1 = 0.5336, d2 = 1150, cz = 0.5, maxFz = 1e5, kxy = 2e4, cxy = 282.8427, mus = 0.7, muk = 0.5, vSettle = 0.01, sliding = 0; Vec3 p0off = Vec3(0);
    bool setAuto = false; Vec3 station = Vec3(0); Rotation R_GP; Vec3 pP = Vec3(0);   // designed station position in the plane frame
    void describe(std::ostream& o) const {
        o.precision(17);
        o << "element=" << kindName(kind) << " A=" << A << " B=" << B << " D=" << D << " swap=" << swapOrder << " vt=" << vt << "\n";
        auto sd = [&](const char* nm, const Surf& s) { o << " " << nm << ": " << shapeName(s.shape) << " R=" << s.R << " dims=" << s.dims << " meshRes=" << s.meshRes << " E=" << s.mat.E << " c=" << s.mat.c << " us=" << s.mat.us << " ud=" << s.mat.ud << " uv=" << s.mat.uv << " h=" << s.mat.h << "\n"; };
        sd("base", s1); sd("probe", s2); if (D >= 0) sd("probe2", s3);
        if (meshMesh) o << " mesh-on-mesh: base faces=" << mesh.nFaces() << " probe faces=" << mesh2.nFaces() << " parameters on base=" << paramBase << " probe=" << paramProbe << "\n";
        o << " designed depth=" << depth2 << " depth3=" << depth3 << " lat2=" << lat2 << " dir2=" << dir2 << " velMode=" << velMode << " xdotT=" << xdotT << " slipT=" << slipT << " slipAng=" << slipAng << " spinT=" << spinT << "\n";
        if (kind == Smooth) o << " cf=" << cf << " bd=" << bd << " bv=" << bv << "\n";
        if (kind == ExpSpring) o << " d0=" << d0 << " d1=" << d1 << " d2=" << d2 << " cz=" << cz << " maxFz=" << maxFz << " kxy=" << kxy << " cxy=" << cxy << " mus=" << mus << " muk=" << muk << " vSettle=" << vSettle << " setAuto=" << setAuto << " sliding=" << sliding << " p0off=" << p0off << " station=" << station << " pP=" << pP << "\n";
        spec.describe(o);
    }
};

inline Material readMaterial(pbt::Reader& r) {
    Material m; m.E = r.logreal(1e3, 1e8);
    { bool has = r.chance(3, 4); double c = r.uniform(0, 2); m.c = has ? c : 0.0; }
    bool fr = r.chance(5, 6); double us = r.uniform(0, 1.5), f = r.unit(); bool visc = r.boolean(); double uv = r.uniform(0, 1);
    if (fr) { m.us = us; m.ud = (f > 0.9 ? us : us * f / 0.9); m.uv = visc ? uv : 0; }
    m.h = r.logreal(0.01, 1);
    return m;   // 9 words
}
// one word: even -> default value, odd -> (log-)uniform in [lo,hi]
inline double optional1(pbt::Reader& r, double def, double lo, double hi, bool logScale) {
    uint32_t w = r.w(); if ((w & 1u) == 0) return def; double u = (w >> 1) / 2147483648.0;
    return logScale ? std::exp(std::log(lo) + (std::log(hi) - std::log(lo)) * u) : lo + (hi - lo) * u;
}
inline double readDepth(pbt::Reader& r, double size, bool deepClass) {
    uint32_t w = r.w(); double u = r.unit();
    if (w == 0) return (deepClass ? 0.3 : 0.1) * size;
    bool pen = (w & 3u) != 0;                 // 3/4 penetrating
    double mag = ((w >> 2) & 3u) != 0 && deepClass ? size * (0.02 + 0.6 * u) : size * std::pow(10.0, -6 + 5.5 * u);
    if (!deepClass && mag > 0.3 * size) mag = 0.3 * size;
    if (((w >> 4) & 15u) == 1) mag = 0;       // exactly touching
    return pen ? mag : -mag;
}

// kindMask: allowed kinds (bit k)
inline Scenario decode(const pbt::Tape& t, unsigned kindMask = (1u << NumKinds) - 1) {
    Scenario sc; pbt::Reader g(t[0]);
    {   std::vector<int> ks; for (int k = 0; k < NumKinds; ++k) if (kindMask >> k & 1u) ks.push_back(k); if (ks.empty()) ks.push_back(HC);
        sc.kind = ks[g.pick((int)ks.size())]; }
    // ---- tree
    int units = (int)t.size() - 3; sc.nb = std::max(1, std::min(4, units));
    mbgen::Options opt; opt.only({mbgen::Pin, mbgen::Slider, mbgen::Ball, mbgen::Free, mbgen::Translation, mbgen::Bushing, mbgen::Universal}); opt.uRange = 2.0;
    mbgen::Options opt6 = opt; opt6.only({mbgen::Free, mbgen::Bushing});
    sc.spec.euler = g.boolean(); sc.spec.unnormQuat = false; sc.spec.zeroU = g.chance(1, 10);
    bool sixDof; { uint32_t w = g.w(); sixDof = (w % 4u) != 1; }   // B is 6-dof (Free/Bushing) in 3/4 of the cases
    static const pbt::Seg zero(mbgen::K, 0u);
    for (int i = 0; i < sc.nb; ++i) {
        const pbt::Seg& s = (3 + i) < (int)t.size() ? t[3 + i] : zero;
        sc.spec.bodies.push_back(mbgen::decodeBody(s, i, sc.spec.euler, false, (i == sc.nb - 1 && sixDof) ? opt6 : opt));
    }
    sc.B = sc.nb;
    { uint32_t w = g.w(); sc.A = (w == 0) ? 0 : int(w % uint32_t(sc.nb)); }     // any body except B (0 = Ground)
    sc.swapOrder = g.boolean();
    sc.vt = g.logreal(1e-3, 1); if (g.chance(1, 6)) sc.vt = 0.01;
    // velocity targets (words 7..14)
    sc.velMode = g.pick(4);
    { double e = g.uniform(-4, 0.5); bool neg = g.boolean(); sc.xdotT = std::pow(10.0, e) * (neg ? -1 : 1); if (g.chance(1, 10)) sc.xdotT = 0; }
    { double e = g.uniform(-3, 2); sc.slipT = std::pow(10.0, e); uint32_t w = g.w(); if ((w & 7u) == 1) sc.slipT = 1; if ((w & 7u) == 2) sc.slipT = 3; }  // multiples of vt; exact 1 and 3 are break points
    sc.slipAng = g.uniform(0, 6.283185307179586);
    { bool has = g.chance(2, 3); double mag = g.uniform(0, 3); double a[3]; g.unit3(a); sc.spinT = (has ? mag : 0.0) * Vec3(a[0], a[1], a[2]); }
    double reboundDelta = g.uniform(-0.2, 0.2);
    Material m3 = readMaterial(g);
    // ---- surfaces (segment 1)
    pbt::Reader r(t[1]);
    uint32_t wPair = r.w(); int pairSel = int(wPair % 6u);
    Material m1 = readMaterial(r), m2 = readMaterial(r);
    if (r.chance(1, 4)) m2.c = m1.c;             // equal dissipation: combined value independent of the weighting
    double R1 = r.uniform(0.05, 1.5), R2 = r.uniform(0.05, 1.5), R3 = r.uniform(0.05, 1.5);
    Vec3 dims2(r.uniform(0.05, 1.2), r.uniform(0.05, 1.2), r.uniform(0.05, 1.2));
    { uint32_t w = r.w(); if ((w & 7u) == 1) dims2[1] = dims2[0]; if ((w & 7u) == 2) dims2 = Vec3(dims2[0]); if ((w & 7u) == 3) dims2[2] = dims2[1]; }
    int meshRes = 1 + r.pick(2);
    Transform X_AS1(mbgen::readRotation(r), mbgen::readVec3(r, -1, 1)); if (r.chance(1, 5)) X_AS1 = Transform();
    sc.R12 = mbgen::readRotation(r); sc.lat2 = mbgen::readVec3(r, -1, 1);
    { double a[3]; r.unit3(a); sc.dir2 = Vec3(a[0], a[1], a[2]); }
    sc.s1.mat = m1; sc.s2.mat = m2; sc.s3.mat = m3; sc.s1.R = R1; sc.s2.R = R2; sc.s3.R = R3; sc.s2.dims = dims2; sc.s1.dims = dims2; sc.s1.meshRes = sc.s2.meshRes = meshRes;
    sc.s1.body = sc.A; sc.s2.body = sc.B; sc.s1.X_BS = X_AS1;
    bool deep = false;
    switch (sc.kind) {
        case HC: case HertzCirc: sc.s1.shape = (pairSel % 2 == 0) ? ShHalfSpace : ShSphere; sc.s2.shape = ShSphere; break;
        case EFF: case CcsEF: { int p = pairSel % 3; deep = true;
            if (sc.kind == EFF && pairSel >= 3) {      // mesh on mesh (1/2 of the ElasticFoundationForce scenarios); 3/4 of them with parameters on BOTH meshes
                Vec3 dims1(std::min(R1, 1.2), std::min(R3, 1.2), std::min(0.5 * (R1 + R3), 1.2));
                sc.s1.shape = ShMesh; sc.s2.shape = ShMesh; sc.meshOnBase = true; sc.meshMesh = true; sc.s1.dims = dims1;
                sc.mesh = makeOcta(meshRes, dims1); sc.mesh2 = makeOcta(1 + int((wPair / 24u) % 2u), dims2);
                int who = int((wPair / 6u) % 8u); sc.paramBase = who != 1; sc.paramProbe = who != 2;      // 1: probe only; 2: base only; else both (3/4)
                break; }
            if (p == 0) { sc.s1.shape = ShHalfSpace; sc.s2.shape = ShMesh; } else if (p == 1) { sc.s1.shape = ShSphere; sc.s2.shape = ShMesh; } else { sc.s1.shape = ShMesh; sc.s2.shape = ShSphere; sc.meshOnBase = true; }
            sc.mesh = makeOcta(meshRes, dims2); sc.paramBase = sc.meshOnBase; sc.paramProbe = !sc.meshOnBase; break; }
        case HertzEll: sc.s1.shape = ShHalfSpace; sc.s2.shape = ShEllipsoid; break;
        case CcsBrick: sc.s1.shape = ShHalfSpace; sc.s2.shape = ShBrick; break;
        case Smooth: sc.s1.shape = ShHalfSpace; sc.s2.shape = ShSphere; break;
        case ExpSpring: sc.s1.shape = ShHalfSpace; sc.s2.shape = ShSphere; sc.A = 0; sc.s1.body = 0; break;
    }
    double size2 = sc.s2.shape == ShSphere ? R2 : std::min(dims2[0], std::min(dims2[1], dims2[2]));
    if (sc.s1.shape == ShSphere) size2 = std::min(size2, R1);
    if (sc.s1.shape == ShMesh) size2 = std::min(size2, std::min(sc.s1.dims[0], std::min(sc.s1.dims[1], sc.s1.dims[2])));
    if (sc.meshMesh) size2 = std::min(dims2[0], std::min(dims2[1], dims2[2])) + std::min(sc.s1.dims[0], std::min(sc.s1.dims[1], sc.s1.dims[2]));   // centroids of BOTH meshes must get inside the other one
    sc.depth2 = readDepth(r, size2, deep);
    if (sc.meshMesh) {   // partial penetration only: the surfaces must intersect (a mesh completely inside the other one has no intersecting faces and is not a contact for the collision detector)
        double cap = 1.2 * std::min(std::min(dims2[0], std::min(dims2[1], dims2[2])), std::min(sc.s1.dims[0], std::min(sc.s1.dims[1], sc.s1.dims[2])));
        if (sc.depth2 > cap) sc.depth2 = cap; }
    // ---- element parameters + second probe (segment 2)
    pbt::Reader e(t[2]);
    bool wantD = e.chance(1, 2) && sc.kind == HC && sc.nb >= 2;
    sc.R13 = Rotation(); sc.lat3 = mbgen::readVec3(e, -1, 1); { double a[3]; e.unit3(a); sc.dir3 = Vec3(a[0], a[1], a[2]); }
    sc.depth3 = readDepth(e, std::min(R3, sc.s1.shape == ShSphere ? R1 : R3), false);
    if (wantD) {
        sc.D = sc.nb - 1; sc.s3.shape = ShSphere; sc.s3.body = sc.D;
        if (sc.A == sc.D) sc.A = 0, sc.s1.body = 0;
        // keep the two probes apart (they are in the same contact set): lateral / angular separation
        if (sc.s1.shape == ShHalfSpace) { Vec3 dl = sc.lat3 - sc.lat2; dl[0] = 0; double need = R2 + R3 + 0.2; if (dl.norm() < need) { Vec3 u = dl.norm() > 1e-6 ? Vec3(dl / dl.norm()) : Vec3(0, 1, 0); sc.lat3 = sc.lat2 + need * u; } }
        else { sc.dir3 = -sc.dir2; if (2 * R1 < 0.2 + 0.3 * (R2 + R3)) { sc.D = -1; } }   // opposite sides of the base sphere; tiny base: one probe only
    }
    sc.cf = optional1(e, 1e-5, 1e-8, 1e-3, true); sc.bd = optional1(e, 300, 20, 1000, false); sc.bv = optional1(e, 50, 5, 200, false);
    // exponential spring
    { bool def = !e.chance(3, 4); double d0 = e.uniform(-0.02, 0.02), d1 = e.logreal(0.05, 20), d2 = e.uniform(100, 2000), cz = optional1(e, 0.0, 0, 2, false);
      double maxFz = optional1(e, 1e5, 0.5, 50, true), kxy = e.logreal(0.1, 100) * 1e3, cxy = e.logreal(0.05, 20) * 50, mus = e.uniform(0, 1.5), fk = e.unit(), vs = e.logreal(1e-3, 1);
      if (!def) { sc.d0 = d0; sc.d1 = d1; sc.d2 = d2; sc.cz = cz; sc.maxFz = maxFz; sc.kxy = kxy; sc.cxy = cxy; sc.mus = mus; sc.muk = fk > 0.9 ? mus : mus * fk / 0.9; sc.vSettle = vs; }
      sc.setAuto = e.chance(3, 4); { uint32_t w = e.w(); sc.sliding = (w & 3u) == 0 ? ((w >> 2) & 1u ? 1.0 : 0.0) : (w >> 2) / 1073741824.0; }
      double pm = e.logreal(1e-5, 1) * 1e-2; double a = e.uniform(0, 6.283185307179586); sc.p0off = pm * Vec3(std::cos(a), std::sin(a), 0);
      sc.station = mbgen::readVec3(e, -0.5, 0.5); sc.R_GP = mbgen::readRotation(e);
      double dz; { uint32_t w = e.w(); double u = e.unit(); dz = (w & 1u ? 1 : -1) * std::pow(10.0, -4 + 2.7 * u) * (1150.0 / sc.d2) * 0.2; if (w == 0) dz = 0; }
      sc.pP = Vec3(e.uniform(-1, 1), e.uniform(-1, 1), sc.d0 + dz); }
    // rebound-threshold velocity class: 1 + 3/2 c xdot ~ 0 (HC family), 1 + c xdot ~ 0 (EF, brick), 1 - cz vz ~ 0 (exp)
    if (sc.velMode == 2) {
        double c = sc.kind == ExpSpring ? sc.cz : (sc.kind == EFF && !sc.meshMesh ? (sc.meshOnBase ? m1.c : m2.c) : 0.5 * (m1.c + m2.c));
        if (sc.kind == Smooth) c = m1.c;
        double fac = (sc.kind == HC || sc.kind == HertzCirc || sc.kind == HertzEll || sc.kind == Smooth) ? 1.5 : 1.0;
        if (c > 1e-3) sc.xdotT = -(1 + reboundDelta) / (fac * c);
    }
    return sc;
}

// ---------------------------------------------------------------- kinematics helpers (ground frame)
struct BodyKin { Transform X; SpatialVec V; };
inline Vec3 pointVel(const BodyKin& b, const Vec3& P) { return b.V[1] + b.V[0] % (P - b.X.p()); }
inline BodyKin kinOf(const MobilizedBody& mb, const State& s) { BodyKin k; k.X = mb.getBodyTransform(s); k.V = mb.getBodyVelocity(s); return k; }

inline bool solve6(double Ain[6][6], const double bin[6], double x[6]) {
    double A[6][7]; for (int i = 0; i < 6; ++i) { for (int j = 0; j < 6; ++j) A[i][j] = Ain[i][j]; A[i][6] = bin[i]; }
    for (int c = 0; c < 6; ++c) { int p = c; for (int i = c + 1; i < 6; ++i) if (std::fabs(A[i][c]) > std::fabs(A[p][c])) p = i;
        if (std::fabs(A[p][c]) < 1e-9) return false; if (p != c) for (int j = 0; j < 7; ++j) std::swap(A[p][j], A[c][j]);
        for (int i = 0; i < 6; ++i) if (i != c) { double f = A[i][c] / A[c][c]; for (int j = c; j < 7; ++j) A[i][j] -= f * A[c][j]; } }
    for (int i = 0; i < 6; ++i) x[i] = A[i][6] / A[i][i];
    return true;
}

// ---------------------------------------------------------------- built scene
struct Scene {
    std::unique_ptr<mbgen::Built> m;
    std::unique_ptr<GeneralContactSubsystem> gcs; ContactSetIndex set;
    std::unique_ptr<ContactTrackerSubsystem> tracker; std::unique_ptr<CompliantContactSubsystem> ccs;
    Force force; bool hasForce = false;
    std::unique_ptr<ExponentialSpringForce> exp; std::unique_ptr<SmoothSphereHalfSpaceForce> smooth;
    Transform X_BS2, X_DS3, X_GP; int idx1 = 0, idx2 = 1, idx3 = 2;   // surface indices in the GeneralContactSubsystem set
    bool velTargeted = false;
    mutable Vector cacheQ; mutable Real cacheMargin = 0;   // maxSmoothStep(): onset margin of a mesh-on-mesh pair at configuration cacheQ
    State& state() { return m->state; }
    const MobilizedBody& body(int i) const { return m->mb[i]; }
    // body forces of the element alone (state realized to Dynamics)
    void elementForces(const State& s, Vector_<SpatialVec>& bf, Vector& mf) const {
        if (hasForce) { Vector_<Vec3> pf; force.calcForceContribution(s, bf, pf, mf); }
        else { bf = m->sys.getRigidBodyForces(s, Stage::Dynamics); mf = m->sys.getMobilityForces(s, Stage::Dynamics); }
    }
    Real elementPE(const State& s) const { return hasForce ? force.calcPotentialEnergyContribution(s) : m->sys.calcPotentialEnergy(s); }
};

inline ContactGeometry makeGeometry(const Surf& s, const MeshData& mesh) {
    switch (s.shape) {
        case ShHalfSpace: return ContactGeometry::HalfSpace();
        case ShSphere: return ContactGeometry::Sphere(s.R);
        case ShEllipsoid: return ContactGeometry::Ellipsoid(s.dims);
        case ShBrick: return ContactGeometry::Brick(s.dims);
        default: { Array_<Vec3> V(mesh.V.begin(), mesh.V.end()); Array_<int> F(mesh.F.begin(), mesh.F.end()); return ContactGeometry::TriangleMesh(V, F); }
    }
}

// designed pose of a probe surface frame in the base surface frame
inline Transform designPose(const Surf& base, const Surf& probe, const MeshData& baseMesh, const MeshData& probeMesh, const Rotation& R1p, const Vec3& lat, const Vec3& dir, double depth) {
    if (base.shape == ShHalfSpace) {                 // half-space occupies x > 0 of its frame
        Vec3 dIn = ~R1p * Vec3(1, 0, 0); double h = support(probe, &probeMesh, dIn);
        return Transform(R1p, Vec3(depth - h, lat[1], lat[2]));
    }
    Vec3 dS = ~R1p * Vec3(-dir); double hp = support(probe, &probeMesh, dS);
    double hb = base.shape == ShSphere ? base.R : support(base, &baseMesh, dir);
    return Transform(R1p, (hb + hp - depth) * dir);
}

inline std::unique_ptr<Scene> build(const Scenario& sc) {
    std::unique_ptr<Scene> S(new Scene);
    // pass 1: body poses of the bare tree
    Transform X_GA, X_GB, X_GD;
    {   mbgen::Built m0(sc.spec); m0.finish(sc.spec); m0.setState(sc.spec); m0.sys.realize(m0.state, Stage::Position);
        X_GA = m0.mb[sc.A].getBodyTransform(m0.state); X_GB = m0.mb[sc.B].getBodyTransform(m0.state); if (sc.D >= 0) X_GD = m0.mb[sc.D].getBodyTransform(m0.state); }
    const Transform X_GS1 = X_GA * sc.s1.X_BS;
    if (sc.kind != ExpSpring) {
        Transform X12 = designPose(sc.s1, sc.s2, sc.mesh, sc.meshOf(true), sc.R12, sc.lat2, sc.dir2, sc.depth2);
        Transform T = X_GS1 * X12; S->X_BS2 = ~X_GB * T;
        if (sc.D >= 0) { Transform X13 = designPose(sc.s1, sc.s3, sc.mesh, sc.mesh, sc.R13, sc.lat3, sc.dir3, sc.depth3); Transform T3 = X_GS1 * X13; S->X_DS3 = ~X_GD * T3; }
    } else {
        Vec3 pG = X_GB * sc.station; S->X_GP = Transform(sc.R_GP, pG - sc.R_GP * sc.pP);
    }
    // pass 2: with the element
    S->m.reset(new mbgen::Built(sc.spec)); mbgen::Built& m = *S->m;
    Surf s2 = sc.s2; s2.X_BS = S->X_BS2; Surf s3 = sc.s3; s3.X_BS = S->X_DS3;
    if (sc.kind == HC || sc.kind == EFF) {
        S->gcs.reset(new GeneralContactSubsystem(m.sys)); S->set = S->gcs->createContactSet();
        std::vector<const Surf*> order; if (sc.swapOrder) { order = {&s2, &sc.s1}; S->idx1 = 1; S->idx2 = 0; } else { order = {&sc.s1, &s2}; S->idx1 = 0; S->idx2 = 1; }
        if (sc.D >= 0) order.push_back(&s3);
        for (auto* s : order) S->gcs->addBody(S->set, m.mb[s->body], makeGeometry(*s, sc.meshOf(s == &s2)), s->X_BS);
        if (sc.kind == HC) {
            HuntCrossleyForce hc(m.forces, *S->gcs, S->set);
            hc.setBodyParameters(ContactSurfaceIndex(S->idx1), sc.s1.mat.E, sc.s1.mat.c, sc.s1.mat.us, sc.s1.mat.ud, sc.s1.mat.uv);
            hc.setBodyParameters(ContactSurfaceIndex(S->idx2), sc.s2.mat.E, sc.s2.mat.c, sc.s2.mat.us, sc.s2.mat.ud, sc.s2.mat.uv);
            if (sc.D >= 0) hc.setBodyParameters(ContactSurfaceIndex(2), sc.s3.mat.E, sc.s3.mat.c, sc.s3.mat.us, sc.s3.mat.ud, sc.s3.mat.uv);
            hc.setTransitionVelocity(sc.vt); S->force = hc; S->hasForce = true;
        } else {
            ElasticFoundationForce ef(m.forces, *S->gcs, S->set);
            if (sc.paramBase) ef.setBodyParameters(ContactSurfaceIndex(S->idx1), sc.s1.mat.E, sc.s1.mat.c, sc.s1.mat.us, sc.s1.mat.ud, sc.s1.mat.uv);
            if (sc.paramProbe) ef.setBodyParameters(ContactSurfaceIndex(S->idx2), sc.s2.mat.E, sc.s2.mat.c, sc.s2.mat.us, sc.s2.mat.ud, sc.s2.mat.uv);
            ef.setTransitionVelocity(sc.vt); S->force = ef; S->hasForce = true;
        }
    } else if (sc.kind == HertzCirc || sc.kind == HertzEll || sc.kind == CcsEF || sc.kind == CcsBrick) {
        S->tracker.reset(new ContactTrackerSubsystem(m.sys)); S->ccs.reset(new CompliantContactSubsystem(m.sys, *S->tracker));
        S->ccs->setTransitionVelocity(sc.vt);
        auto add = [&](const Surf& s) { ContactMaterial mat(s.mat.E, s.mat.c, s.mat.us, s.mat.ud, s.mat.uv); m.mb[s.body].updBody().addContactSurface(s.X_BS, ContactSurface(makeGeometry(s, sc.mesh), mat, s.mat.h)); };
        if (sc.swapOrder) { add(s2); add(sc.s1); } else { add(sc.s1); add(s2); }
    } else if (sc.kind == Smooth) {
        S->smooth.reset(new SmoothSphereHalfSpaceForce(m.forces));
        S->smooth->setParameters(sc.s1.mat.E, sc.s1.mat.c, sc.s1.mat.us, sc.s1.mat.ud, sc.s1.mat.uv, sc.vt, sc.cf, sc.bd, sc.bv);
        S->smooth->setContactSphereBody(m.mb[sc.B]); S->smooth->setContactSphereLocationInBody(S->X_BS2.p()); S->smooth->setContactSphereRadius(sc.s2.R);
        S->smooth->setContactHalfSpaceBody(m.mb[sc.A]); S->smooth->setContactHalfSpaceFrame(sc.s1.X_BS);
        S->force = *S->smooth; S->hasForce = true;
    } else {
        ExponentialSpringParameters p; p.setShapeParameters(sc.d0, sc.d1, sc.d2); p.setNormalViscosity(sc.cz); p.setMaxNormalForce(sc.maxFz);
        p.setFrictionElasticity(sc.kxy); p.setFrictionViscosity(sc.cxy); p.setSettleVelocity(sc.vSettle); p.setInitialMuStatic(sc.mus); p.setInitialMuKinetic(sc.muk);
        S->exp.reset(new ExponentialSpringForce(m.forces, S->X_GP, m.mb[sc.B], sc.station, p));
        S->force = *S->exp; S->hasForce = true;
    }
    m.finish(sc.spec); m.setState(sc.spec);
    State& s = m.state;
    if (sc.kind == ExpSpring && sc.setAuto) {
        const GeneralForceSubsystem& fs = m.forces;
        Value<Real>::updDowncast(fs.updDiscreteVariable(s, S->exp->getSlidingStateIndex())) = sc.sliding;
        Value<Vec3>::updDowncast(fs.updDiscreteVariable(s, S->exp->getAnchorPointStateIndex())) = Vec3(sc.pP[0], sc.pP[1], 0) + sc.p0off;
    }
    // ---- designed relative velocity at the contact (B six-dof)
    const MobilizedBody& mbB = m.mb[sc.B];
    if (sc.velMode != 3 && mbB.getNumU(s) == 6 && !sc.spec.zeroU) {
        m.sys.realize(s, Stage::Position);
        BodyKin kA; kA.X = m.mb[sc.A].getBodyTransform(s);
        Transform XGB = mbB.getBodyTransform(s);
        Vec3 n, C;                                    // n: from base material towards the probe; C: nominal contact point
        if (sc.kind == ExpSpring) { n = S->X_GP.R() * Vec3(0, 0, 1); C = XGB * sc.station; }
        else {
            Transform XS1 = kA.X * sc.s1.X_BS; Transform XS2 = XGB * S->X_BS2;
            if (sc.s1.shape == ShHalfSpace) { n = -(XS1.R() * Vec3(1, 0, 0)); Vec3 dS = ~XS2.R() * (-n); Surf tmp = sc.s2; double h = support(tmp, &sc.meshOf(true), dS); C = XS2.p() - (h - 0.5 * sc.depth2) * n; }
            else { Vec3 d = XS2.p() - XS1.p(); n = d / d.norm(); double hb = sc.s1.shape == ShSphere ? sc.s1.R : support(sc.s1, &sc.mesh, ~XS1.R() * n); C = XS1.p() + (hb - 0.5 * sc.depth2) * n; }
        }
        Vec3 t1 = std::fabs(n[0]) < 0.9 ? Vec3(1, 0, 0) % n : Vec3(0, 1, 0) % n; t1 = t1 / t1.norm(); Vec3 t2 = n % t1;
        Vec3 slip = (sc.slipT * sc.vt) * (std::cos(sc.slipAng) * t1 + std::sin(sc.slipAng) * t2), spin = sc.spinT;
        if (sc.kind == ExpSpring) slip = (sc.slipT * 0.01) * (std::cos(sc.slipAng) * t1 + std::sin(sc.slipAng) * t2);
        if (sc.velMode == 1) { slip = Vec3(0); spin = (~spin * n) * n; }
        // u_B -> V_GB is affine: probe with unit vectors
        UIndex u0 = mbB.getFirstUIndex(s); Vector uSave = s.getU();
        auto VB = [&](const double* ub) { for (int k = 0; k < 6; ++k) s.updU()[u0 + k] = ub[k]; m.sys.realize(s, Stage::Velocity); return mbB.getBodyVelocity(s); };
        double z[6] = {0, 0, 0, 0, 0, 0}; SpatialVec V0 = VB(z); double J[6][6];
        for (int k = 0; k < 6; ++k) { double e[6] = {0, 0, 0, 0, 0, 0}; e[k] = 1; SpatialVec V = VB(e); for (int i = 0; i < 3; ++i) { J[i][k] = V[0][i] - V0[0][i]; J[3 + i][k] = V[1][i] - V0[1][i]; } }
        kA.V = m.mb[sc.A].getBodyVelocity(s);
        Vec3 wB = kA.V[0] + spin; Vec3 vC = pointVel(kA, C) - sc.xdotT * n + slip; Vec3 vB = vC - wB % (C - XGB.p());
        double rhs[6], sol[6]; for (int i = 0; i < 3; ++i) { rhs[i] = wB[i] - V0[0][i]; rhs[3 + i] = vB[i] - V0[1][i]; }
        bool ok = solve6(J, rhs, sol); double mx = 0; if (ok) for (int k = 0; k < 6; ++k) mx = std::max(mx, std::fabs(sol[k]));
        if (ok && mx < 1e3) { for (int k = 0; k < 6; ++k) s.updU()[u0 + k] = sol[k]; S->velTargeted = true; }
        else s.updU() = uSave;
    }
    return S;
}

// ---------------------------------------------------------------- non-smooth points of the potential energy
// Largest |t| for which q + t*qdot (qdot belonging to the speeds of state w, realized to Velocity) provably stays on the
// same side of every onset of the element's energy (contact onset of each probe / brick vertex / mesh spring, the
// exponential spring's clamp at the maximum normal force): 0.04 * (smallest distance to an onset) / (bound on the relative
// speed of the surfaces).  Used by C12 to keep finite-difference stencils away from non-smooth points.
inline Real maxSmoothStep(const Scenario& sc, const Scene& S, const State& w) {
    const MobilizedBody& mA = S.m->mb[sc.A]; const MobilizedBody& mB = S.m->mb[sc.B];
    BodyKin kA = kinOf(mA, w), kB = kinOf(mB, w);
    Real margin = Infinity, rate = 0;
    auto bodyRate = [](const BodyKin& k, const Vec3& P, Real size) { return k.V[1].norm() + k.V[0].norm() * ((P - k.X.p()).norm() + size); };
    if (sc.kind == ExpSpring) {
        Vec3 pG = kB.X * sc.station, vG = pointVel(kB, pG); Vec3 pP = ~S.X_GP * pG, vP = ~S.X_GP.R() * vG;
        Real fz = sc.d1 * std::exp(-sc.d2 * (pP[2] - sc.d0)) * (1 - sc.cz * vP[2]);
        if (fz > 0) margin = std::fabs(std::log(sc.maxFz / fz)) / sc.d2;
        rate = vG.norm();
        return rate > 0 ? 0.04 * margin / rate : Infinity;
    }
    Transform X1 = kA.X * sc.s1.X_BS, X2 = kB.X * S.X_BS2;
    auto sphereDepth = [&](const Vec3& c, Real R) { return sc.s1.shape == ShHalfSpace ? R + ~(c - X1.p()) * (X1.R() * Vec3(1, 0, 0)) : sc.s1.R + R - (c - X1.p()).norm(); };
    Real size = 0;
    if (sc.meshMesh) {   // every face centroid of either mesh against the surface of the other (brute force); depends on q only: cached
        if (!(S.cacheQ.size() == w.getNQ() && (S.cacheQ - w.getQ()).normInf() == 0)) {
            Real mg = Infinity; Transform X21 = ~X2 * X1, X12 = ~X1 * X2;
            for (int f = 0; f < sc.mesh.nFaces(); ++f) mg = std::min(mg, queryMesh(sc.mesh2, X21 * sc.mesh.centroid(f)).dist);
            for (int f = 0; f < sc.mesh2.nFaces(); ++f) mg = std::min(mg, queryMesh(sc.mesh, X12 * sc.mesh2.centroid(f)).dist);
            S.cacheQ = w.getQ(); S.cacheMargin = mg;
        }
        margin = S.cacheMargin;
        size = std::max(sc.s2.dims[0], std::max(sc.s2.dims[1], sc.s2.dims[2])) + std::max(sc.s1.dims[0], std::max(sc.s1.dims[1], sc.s1.dims[2])) + (X2.p() - X1.p()).norm();
    } else if (sc.s1.shape == ShMesh || sc.s2.shape == ShMesh) {
        const Transform& XM = sc.meshOnBase ? X1 : X2; const Transform& XO = sc.meshOnBase ? X2 : X1; const Surf& os = sc.meshOnBase ? sc.s2 : sc.s1;
        for (int f = 0; f < sc.mesh.nFaces(); ++f) { Vec3 cg = XM * sc.mesh.centroid(f);
            Real inside = os.shape == ShSphere ? os.R - (cg - XO.p()).norm() : ~(cg - XO.p()) * (XO.R() * Vec3(1, 0, 0)); margin = std::min(margin, std::fabs(inside)); }
        size = std::max(sc.s2.dims[0], std::max(sc.s2.dims[1], sc.s2.dims[2])) + sc.s2.R + sc.s1.R;
    } else if (sc.s2.shape == ShBrick) {
        Vec3 xin = X1.R() * Vec3(1, 0, 0);
        for (int i = 0; i < 8; ++i) { Vec3 v((i & 1 ? 1 : -1) * sc.s2.dims[0], (i & 2 ? 1 : -1) * sc.s2.dims[1], (i & 4 ? 1 : -1) * sc.s2.dims[2]); margin = std::min(margin, std::fabs(~(X2 * v - X1.p()) * xin)); }
        size = sc.s2.dims.norm();
    } else if (sc.s2.shape == ShEllipsoid) {
        Vec3 xin = X1.R() * Vec3(1, 0, 0), dS = ~X2.R() * xin; Real h = support(sc.s2, nullptr, dS); margin = std::fabs(h + ~(X2.p() - X1.p()) * xin); size = std::max(sc.s2.dims[0], std::max(sc.s2.dims[1], sc.s2.dims[2]));
    } else { margin = std::fabs(sphereDepth(X2.p(), sc.s2.R)); size = sc.s2.R; }
    rate = bodyRate(kA, X2.p(), size) + bodyRate(kB, X2.p(), size);
    Real t = rate > 0 ? 0.04 * margin / rate : Infinity;
    if (sc.D >= 0) { BodyKin kD = kinOf(S.m->mb[sc.D], w); Transform X3 = kD.X * S.X_DS3; Real m3 = std::fabs(sphereDepth(X3.p(), sc.s3.R)), r3 = bodyRate(kA, X3.p(), sc.s3.R) + bodyRate(kD, X3.p(), sc.s3.R);
        if (r3 > 0) t = std::min(t, 0.04 * m3 / r3); }
    return t;
}

} // namespace cgen
