// consgen.h -- random constraints for mbgen models, decoded from pbt tape units (DESIGN.md 3.1 "Constraint
// units", properties C07-C09, C21, C43).  Owner: constraints engineer ("cons").  Self-contained: needs only
// pbt.h, mbgen.h and Simbody.h.
//
// Tape layout.  Every unit segment has consgen::K = mbgen::K + 1 words; the LAST word (index mbgen::K) is the
// unit kind: kind % 5 in {1,2} -> constraint unit, otherwise body unit (word 0 = body).  Body units are decoded
// by mbgen (their first mbgen::K words), constraint units by decodeConstraint() below.  If no unit is a
// constraint the last unit is read as one (when there are >= 2 units); if no unit is a body one all-zero body
// (Pin on Ground) is supplied.  The decoder is total: any tape gives a legal model.
//
//   pbt::Reader g(t[0]);
//   consgen::Options co;  mbgen::Options mo;
//   consgen::Model cm = consgen::decode(t, 1, (int)t.size() - 1, g, mo, co);     // consumes 3 words of g (mbgen)
//   consgen::BuiltCons m(cm);                  // bodies + constraints added; m.cons[i] are the handles
//   ... add forces to m.forces ...
//   m.finish(cm.spec); m.setState(cm.spec);    // as mbgen::Built
//   cm.describe(os); consgen::labelModel(ctx, cm);
//
// Every built-in constraint type of the C07 property text is generated:
//   Rod, Ball, Weld, PointInPlane, PointOnLine, ConstantAngle, ConstantOrientation, NoSlip1D,
//   ConstantCoordinate, ConstantSpeed, ConstantAcceleration, CoordinateCoupler, SpeedCoupler, PrescribedMotion,
//   PointOnPlaneContact, SphereOnPlaneContact, SphereOnSphereContact, LineOnLineContact, Custom (two flavours
//   written here with exact derivatives: a coordinate/speed/acceleration relation (1,1,1 equations, time
//   dependent) and a body-based squared-distance constraint).
// Two-body constraints always connect two DIFFERENT bodies (Ground, ancestor/descendant, siblings all occur);
// NoSlip1D's case body may coincide with a moving body as its documentation allows.  Degenerate geometry is
// avoided by construction where it is a parameter (rod length >= 0.3, ConstantAngle angle in [0.4, pi-0.4],
// sphere radii >= 0.2) and reported by degenerateAt() where it depends on the state (rod / sphere-centre
// distance, parallel edges).
//
// typeInfo(t) is the classification table: equation counts, holonomic / nonholonomic / acceleration-only class
// and the FORMULATION GROUP of every equation row, with the source comment that justifies it:
//   'H' true-derivative formulation: verr = d/dt perr and aerr = d/dt verr along any motion, in every state.
//   'C' coincident-material-point formulation (Ball, translational rows of Weld): verr/aerr use the point of
//       body 1 that coincides with the station of body 2; equal to the derivatives only on the manifold.
//   'N' instantaneous-material-point nonholonomic formulation (NoSlip1D): aerr differentiates verr with the contact
//       material points frozen; differs from d/dt verr even on the manifold.
//   'F' ephemeral-frame nonholonomic formulation (rolling rows of SphereOnSphereContact): verr is resolved along
//       contact-frame axes Cx,Cy that are arbitrary functions of the pose, aerr assumes they do not spin about the
//       normal; aerr = d/dt verr only where verr = 0 (and where the axis choice happens to be continuous).
//   'A' acceleration-only row (no hierarchy clause).
#pragma once
#include "pbt.h"
#include "mbgen.h"
#include <string>
#include <vector>

namespace consgen {
using namespace SimTK;

const int K = mbgen::K + 1;

enum ConsType { Rod = 0, Ball, Weld, PointInPlane, PointOnLine, ConstantAngle, ConstantOrientation, NoSlip1D,
                ConstantCoordinate, ConstantSpeed, ConstantAcceleration, CoordinateCoupler, SpeedCoupler, PrescribedMotion,
                PointOnPlaneContact, SphereOnPlaneContact, SphereOnSphereContact, LineOnLineContact, Custom, NumConsTypes };
enum EqClass { Holonomic, Nonholonomic, AccelerationOnly, Mixed };

struct TypeInfo { const char* name; int mp, mv, ma; const char* rowGroups; EqClass cls; bool coordinateBased; const char* why; };
// mv of the three optional-rolling contacts is the count WITH rolling; Custom shows flavour 0 (flavour 1 is 1,0,0 "H").
inline const TypeInfo& typeInfo(int t) {
    static const TypeInfo tab[NumConsTypes] = {
        {"Rod", 1, 0, 0, "H", Holonomic, false, "Constraint_RodImpl.h: perr=r(q)-d, verr=pd_PQ.Cz, aerr=pdd_PQ.Cz+pd_PQ.d/dt Cz (eqs 2-4,7): successive time derivatives"},
        {"Ball", 3, 0, 0, "CCC", Holonomic, false, "ConstraintImpl.h BallImpl: 'verr = v_AS - v_AC ... Integrating to get perr ... perr=constant': coincident material point C of body 1"},
        {"Weld", 6, 0, 0, "HHHCCC", Holonomic, false, "ConstraintImpl.h WeldImpl: 'look at the ConstantOrientation (1st 3 equations) and Ball (last 3 equations) theory'"},
        {"PointInPlane", 1, 0, 0, "H", Holonomic, false, "ConstraintImpl.h PointInPlaneImpl: perr=p_BS.n-h and its derivatives taken in B (the coincident point only shortens the algebra)"},
        {"PointOnLine", 2, 0, 0, "HH", Holonomic, false, "ConstraintImpl.h PointOnLineImpl: two PointInPlane-like equations, differentiated in B"},
        {"ConstantAngle", 1, 0, 0, "H", Holonomic, false, "ConstraintImpl.h ConstantAngleImpl: perr=b.f-cos(theta), verr=d/dt, aerr=d2/dt2"},
        {"ConstantOrientation", 3, 0, 0, "HHH", Holonomic, false, "ConstraintImpl.h ConstantOrientationImpl: three ConstantAngle-like dot products"},
        {"NoSlip1D", 0, 1, 0, "N", Nonholonomic, false, "ConstraintImpl.h NoSlip1DImpl: 'Differentiating material point velocities in A, we get the acceleration error' (material points P0,P1 frozen)"},
        {"ConstantCoordinate", 1, 0, 0, "H", Holonomic, true, "perr=q-p, qdot, qdotdot"},
        {"ConstantSpeed", 0, 1, 0, "H", Nonholonomic, true, "verr=u-s, aerr=udot"},
        {"ConstantAcceleration", 0, 0, 1, "A", AccelerationOnly, true, "aerr=udot-a"},
        {"CoordinateCoupler", 1, 0, 0, "H", Holonomic, true, "Constraint.cpp CoordinateCouplerImpl: f(q), grad f.qdot, qdot'Hqdot+grad f.qdotdot"},
        {"SpeedCoupler", 0, 1, 0, "H", Nonholonomic, true, "Constraint.cpp SpeedCouplerImpl: 'd verr / dt = (df/du)*udot + (df/dq)*qdot'"},
        {"PrescribedMotion", 1, 0, 0, "H", Holonomic, true, "Constraint.cpp PrescribedMotionImpl: q-f(t), qdot-f'(t), qdotdot-f''(t)"},
        {"PointOnPlaneContact", 1, 2, 0, "HHH", Mixed, false, "Constraint_PointOnPlaneContact.h: perr=p_SF.Pz-h; '(2) verr = v_PF = ~R_SP*v_SF ... (3) aerr = a_PF': F is a fixed station of B, velocity and acceleration taken in S"},
        {"SphereOnPlaneContact", 1, 2, 0, "HHH", Mixed, false, "Constraint_SphereOnPlaneContactImpl.h: perr=p_FO.Pz-(h+r), 'verr = d/dt_F perr', 'aerr = (d/dt)_F verr'; rolling rows: 'You have to differentiate verr carefully ... the result is not the acceleration of the material point at C, but rather of the moving contact point C'"},
        {"SphereOnSphereContact", 1, 2, 0, "HFF", Mixed, false, "Constraint_SphereOnSphereContact.h/.cpp: normal row r-(rf+rb) as Rod; rolling rows are measure numbers along Cx,Cy which are 'arbitrary ... don't expect them to change smoothly' while aerr assumes 'they are not rotating about z' (ensureVelocityCacheRealized): aerr = d/dt verr only where verr = 0"},
        {"LineOnLineContact", 1, 2, 0, "HHH", Mixed, false, "Constraint_LineOnLineContactImpl.h: normal row r=(Pb-Pf).n; tangential rows along Cx=df, Cy=n x df with 'the time derivative of the contact frame, including the contact point Co' carried through aerr"},
        {"Custom", 1, 1, 1, "HHA", Mixed, true, "consgen.h CoordCustom / SqDistCustom: derivatives written out exactly"},
    };
    return tab[t >= 0 && t < NumConsTypes ? t : 0];
}
inline const char* consName(int t) { return typeInfo(t).name; }

struct Options {
    unsigned long long typeMask = (1ull << NumConsTypes) - 1;
    int maxCons = 4;
    bool allowDisabled = false;      // constraints may be generated disabled-by-default (1 in 4)
    bool allowTimeDependence = true; // PrescribedMotion / Custom time terms non-zero
    bool allowNonlinearCouplers = true;
    Options& only(std::initializer_list<int> ts) { typeMask = 0; for (int t : ts) typeMask |= 1ull << t; return *this; }
    Options& without(std::initializer_list<int> ts) { for (int t : ts) typeMask &= ~(1ull << t); return *this; }
};

struct ConsSpec {
    int type = Rod; int flavour = 0;       // flavour: Custom 0 = coordinate relation (1,1,1), 1 = squared distance (1,0,0)
    int b1 = 0, b2 = 1, b3 = 0;            // body indices into the model (0 = Ground); b3 = NoSlip1D case body
    Vec3 p1 = Vec3(0), p2 = Vec3(0);       // stations on b1 / b2 (NoSlip1D: p1 = contact point in the case body)
    UnitVec3 a1, a2;                       // axes on b1 / b2 (plane normal, line direction, NoSlip direction in case body)
    Rotation R1, R2;                       // frames on b1 / b2 (Weld, ConstantOrientation, plane frame, edge frames)
    double length = 1, angle = 1.5707963267948966, value = 0, height = 0, r1 = 0.5, r2 = 0.5, h1 = 1, h2 = 1;
    bool rolling = false, disabled = false, linear = true;
    // coordinate-based types: up to 3 (mobilizer, q, u) references; mob[k] is a body index >= 1 with nu > 0
    int nArgs = 1, nQArgs = 0; int mob[3] = {1, 1, 1}, qi[3] = {0, 0, 0}, ui[3] = {0, 0, 0};
    double c[8] = {0, 1, 0, 0, 0, 0, 0, 0};
    bool qOnNonIdentityN = false;          // constrains/uses a q of a mobilizer with qdot != u as a CONSTRAINED q

    void counts(int& mp, int& mv, int& ma) const {
        const TypeInfo& ti = typeInfo(type); mp = ti.mp; mv = ti.mv; ma = ti.ma;
        if ((type == SphereOnPlaneContact || type == SphereOnSphereContact || type == LineOnLineContact) && !rolling) mv = 0;
        if (type == Custom && flavour == 1) { mp = 1; mv = 0; ma = 0; }
    }
    // formulation group of each equation, order: holonomic rows, nonholonomic rows, acceleration-only rows
    std::string rowGroups() const { int mp, mv, ma; counts(mp, mv, ma); std::string g = typeInfo(type).rowGroups; if (type == Custom && flavour == 1) g = "H"; return g.substr(0, mp + mv + ma); }
    // velocity error (incl. d/dt perr) affine in u: one Newton step of velocity projection is exact
    bool affineInU() const { return !(type == SpeedCoupler && c[5] != 0); }
    bool twoBody() const { return !typeInfo(type).coordinateBased || (type == Custom && flavour == 1); }
    // verr (incl. d/dt perr) homogeneous in u and time independent: workless in the sense of C08's power clause
    bool homogeneousInU() const {
        switch (type) { case ConstantSpeed: return value == 0; case ConstantAcceleration: return false; case PrescribedMotion: return c[1] == 0 && c[2] == 0 && c[3] == 0;
            case SpeedCoupler: return c[6] == 0 && c[5] == 0; case Custom: return flavour == 1; default: return true; }
    }
    void describe(std::ostream& o) const {
        o.precision(17);
        o << consName(type); if (type == Custom) o << "/flavour" << flavour; if (disabled) o << " DISABLED";
        if (twoBody()) {
            o << " bodies(" << b1 << "," << b2 << ")"; if (type == NoSlip1D) o << " case=" << b3;
            o << " p1=" << p1 << " p2=" << p2 << " a1=" << Vec3(a1) << " a2=" << Vec3(a2) << " R1(quat)=" << R1.convertRotationToQuaternion().asVec4() << " R2(quat)=" << R2.convertRotationToQuaternion().asVec4()
              << " length=" << length << " angle=" << angle << " height=" << height << " r1=" << r1 << " r2=" << r2 << " h1=" << h1 << " h2=" << h2 << " rolling=" << rolling;
        } else {
            o << " args:"; for (int k = 0; k < nArgs; ++k) o << " (body " << mob[k] << ", q" << qi[k] << ", u" << ui[k] << ")"; o << " nQArgs=" << nQArgs << " value=" << value << " linear=" << linear << " c=";
            for (int k = 0; k < 8; ++k) o << c[k] << " "; if (qOnNonIdentityN) o << " [constrained q on a mobilizer with qdot!=u]";
        }
    }
};

// ------------------------------------------------------------------ functions with exact derivatives
// f(x) = c0 + sum a_i x_i + 1/2 sum b_i x_i^2 + d x_0 x_1
class PolyFn : public Function {
public:
    PolyFn(int n, double c0, const double* a, const double* b, double d) : n(n), c0(c0), d(n >= 2 ? d : 0) { for (int i = 0; i < 3; ++i) { this->a[i] = i < n ? a[i] : 0; this->b[i] = i < n ? b[i] : 0; } }
    Real calcValue(const Vector& x) const override { Real f = c0; for (int i = 0; i < n; ++i) f += a[i] * x[i] + 0.5 * b[i] * x[i] * x[i]; if (n >= 2) f += d * x[0] * x[1]; return f; }
    Real calcDerivative(const Array_<int>& k, const Vector& x) const override {
        if (k.size() == 1) { int i = k[0]; Real g = a[i] + b[i] * x[i]; if (n >= 2 && i == 0) g += d * x[1]; if (n >= 2 && i == 1) g += d * x[0]; return g; }
        if (k.size() == 2) { int i = k[0], j = k[1]; if (i == j) return b[i]; if ((i == 0 && j == 1) || (i == 1 && j == 0)) return n >= 2 ? d : 0; return 0; }
        return 0;
    }
    int getArgumentSize() const override { return n; }
    int getMaxDerivativeOrder() const override { return 1000; }
    PolyFn* clone() const override { return new PolyFn(*this); }
private:
    int n; double c0, a[3], b[3], d;
};
// speed coupler: arguments (u_0..u_{nu-1}, q_0..q_{nq-1}), f = c0 + sum a_i u_i + e q_0 u_0 + 1/2 b u_0^2
class SpeedFn : public Function {
public:
    SpeedFn(int nu, int nq, double c0, const double* a, double e, double b) : nu(nu), nq(nq), c0(c0), e(nq > 0 ? e : 0), b(b) { for (int i = 0; i < 3; ++i) this->a[i] = i < nu ? a[i] : 0; }
    Real calcValue(const Vector& x) const override { Real f = c0; for (int i = 0; i < nu; ++i) f += a[i] * x[i]; if (nq > 0) f += e * x[nu] * x[0]; f += 0.5 * b * x[0] * x[0]; return f; }
    Real calcDerivative(const Array_<int>& k, const Vector& x) const override {
        if (k.size() == 1) { int i = k[0]; if (i < nu) { Real g = a[i]; if (i == 0) g += (nq > 0 ? e * x[nu] : 0) + b * x[0]; return g; } if (i == nu) return e * x[0]; return 0; }
        if (k.size() == 2) { int i = k[0], j = k[1]; if (i == 0 && j == 0) return b; if ((i == 0 && j == nu) || (i == nu && j == 0)) return e; return 0; }
        return 0;
    }
    int getArgumentSize() const override { return nu + nq; }
    int getMaxDerivativeOrder() const override { return 1000; }
    SpeedFn* clone() const override { return new SpeedFn(*this); }
private:
    int nu, nq; double c0, a[3], e, b;
};
// prescribed motion: f(t) = c0 + c1 t + 1/2 c2 t^2 + c3 sin(c4 t)
class TimeFn : public Function {
public:
    TimeFn(double c0, double c1, double c2, double c3, double c4) : c0(c0), c1(c1), c2(c2), c3(c3), c4(c4) {}
    Real calcValue(const Vector& x) const override { Real t = x[0]; return c0 + c1 * t + 0.5 * c2 * t * t + c3 * std::sin(c4 * t); }
    Real calcDerivative(const Array_<int>& k, const Vector& x) const override { Real t = x[0];
        if (k.size() == 1) return c1 + c2 * t + c3 * c4 * std::cos(c4 * t); if (k.size() == 2) return c2 - c3 * c4 * c4 * std::sin(c4 * t); return 0; }
    int getArgumentSize() const override { return 1; }
    int getMaxDerivativeOrder() const override { return 2; }
    TimeFn* clone() const override { return new TimeFn(*this); }
private:
    double c0, c1, c2, c3, c4;
};

// ------------------------------------------------------------------ Custom constraints (exact derivatives)
// Flavour 0: mobilizer coordinates A=(mob0,q,u), B=(mob1,q,u):
//   holonomic      perr = c0*qA + 1/2 c1*qB^2 - c2*t
//   nonholonomic   verr = c3*uA + c4*qB*uB - c5*t
//   acceleration   aerr = c6*udotA + c7*uB^2 + 1
class CoordCustom : public Constraint::Custom::Implementation {
public:
    CoordCustom(SimbodyMatterSubsystem& matter, const MobilizedBody& A, int qA, int uA, const MobilizedBody& B, int qB, int uB, const double* c)
        : Implementation(matter, 1, 1, 1), qA(qA), uA(uA), qB(qB), uB(uB) { for (int i = 0; i < 8; ++i) this->c[i] = c[i]; mA = addConstrainedMobilizer(A); mB = addConstrainedMobilizer(B); }
    Implementation* clone() const override { return new CoordCustom(*this); }
    void calcPositionErrors(const State& s, const Array_<Transform, ConstrainedBodyIndex>&, const Array_<Real, ConstrainedQIndex>& q, Array_<Real>& perr) const override {
        Real a = getOneQ(s, q, mA, qA), b = getOneQ(s, q, mB, qB); perr[0] = c[0] * a + 0.5 * c[1] * b * b - c[2] * s.getTime(); }
    void calcPositionDotErrors(const State& s, const Array_<SpatialVec, ConstrainedBodyIndex>&, const Array_<Real, ConstrainedQIndex>& qd, Array_<Real>& pverr) const override {
        Real b = getOneQFromState(s, mB, qB); pverr[0] = c[0] * getOneQDot(s, qd, mA, qA) + c[1] * b * getOneQDot(s, qd, mB, qB) - c[2]; }
    void calcPositionDotDotErrors(const State& s, const Array_<SpatialVec, ConstrainedBodyIndex>&, const Array_<Real, ConstrainedQIndex>& qdd, Array_<Real>& paerr) const override {
        Real b = getOneQFromState(s, mB, qB), bd = getOneQDotFromState(s, mB, qB); paerr[0] = c[0] * getOneQDotDot(s, qdd, mA, qA) + c[1] * (bd * bd + b * getOneQDotDot(s, qdd, mB, qB)); }
    void addInPositionConstraintForces(const State& s, const Array_<Real>& lam, Array_<SpatialVec, ConstrainedBodyIndex>&, Array_<Real, ConstrainedQIndex>& qf) const override {
        Real b = getOneQFromState(s, mB, qB); addInOneQForce(s, mA, qA, lam[0] * c[0], qf); addInOneQForce(s, mB, qB, lam[0] * c[1] * b, qf); }
    void calcVelocityErrors(const State& s, const Array_<SpatialVec, ConstrainedBodyIndex>&, const Array_<Real, ConstrainedUIndex>& u, Array_<Real>& verr) const override {
        Real b = getOneQFromState(s, mB, qB); verr[0] = c[3] * getOneU(s, u, mA, uA) + c[4] * b * getOneU(s, u, mB, uB) - c[5] * s.getTime(); }
    void calcVelocityDotErrors(const State& s, const Array_<SpatialVec, ConstrainedBodyIndex>&, const Array_<Real, ConstrainedUIndex>& ud, Array_<Real>& vaerr) const override {
        Real b = getOneQFromState(s, mB, qB), bd = getOneQDotFromState(s, mB, qB);
        vaerr[0] = c[3] * getOneUDot(s, ud, mA, uA) + c[4] * (bd * getOneUFromState(s, mB, uB) + b * getOneUDot(s, ud, mB, uB)) - c[5]; }
    void addInVelocityConstraintForces(const State& s, const Array_<Real>& lam, Array_<SpatialVec, ConstrainedBodyIndex>&, Array_<Real, ConstrainedUIndex>& mf) const override {
        Real b = getOneQFromState(s, mB, qB); addInOneMobilityForce(s, mA, uA, lam[0] * c[3], mf); addInOneMobilityForce(s, mB, uB, lam[0] * c[4] * b, mf); }
    void calcAccelerationErrors(const State& s, const Array_<SpatialVec, ConstrainedBodyIndex>&, const Array_<Real, ConstrainedUIndex>& ud, Array_<Real>& aerr) const override {
        Real ub = getOneUFromState(s, mB, uB); aerr[0] = c[6] * getOneUDot(s, ud, mA, uA) + c[7] * ub * ub + 1; }
    void addInAccelerationConstraintForces(const State& s, const Array_<Real>& lam, Array_<SpatialVec, ConstrainedBodyIndex>&, Array_<Real, ConstrainedUIndex>& mf) const override {
        addInOneMobilityForce(s, mA, uA, lam[0] * c[6], mf); }
private:
    ConstrainedMobilizerIndex mA, mB; MobilizerQIndex qA; MobilizerUIndex uA; MobilizerQIndex qB; MobilizerUIndex uB; double c[8];
};
// Flavour 1: the "squared" rod of Constraint_RodImpl.h's comment: perr=(p.p-d^2)/2, verr=v.p, aerr=a.p+v.v, f=+-lambda p
class SqDistCustom : public Constraint::Custom::Implementation {
public:
    SqDistCustom(SimbodyMatterSubsystem& matter, const MobilizedBody& A, const Vec3& pA, const MobilizedBody& B, const Vec3& pB, double d)
        : Implementation(matter, 1, 0, 0), pA(pA), pB(pB), d(d) { bA = addConstrainedBody(A); bB = addConstrainedBody(B); }
    Implementation* clone() const override { return new SqDistCustom(*this); }
    void calcPositionErrors(const State&, const Array_<Transform, ConstrainedBodyIndex>& X, const Array_<Real, ConstrainedQIndex>&, Array_<Real>& perr) const override {
        Vec3 p = findStationLocation(X, bB, pB) - findStationLocation(X, bA, pA); perr[0] = 0.5 * (dot(p, p) - d * d); }
    void calcPositionDotErrors(const State& s, const Array_<SpatialVec, ConstrainedBodyIndex>& V, const Array_<Real, ConstrainedQIndex>&, Array_<Real>& pverr) const override {
        Vec3 p = findStationLocationFromState(s, bB, pB) - findStationLocationFromState(s, bA, pA), v = findStationVelocity(s, V, bB, pB) - findStationVelocity(s, V, bA, pA); pverr[0] = dot(v, p); }
    void calcPositionDotDotErrors(const State& s, const Array_<SpatialVec, ConstrainedBodyIndex>& A, const Array_<Real, ConstrainedQIndex>&, Array_<Real>& paerr) const override {
        Vec3 p = findStationLocationFromState(s, bB, pB) - findStationLocationFromState(s, bA, pA), v = findStationVelocityFromState(s, bB, pB) - findStationVelocityFromState(s, bA, pA),
             a = findStationAcceleration(s, A, bB, pB) - findStationAcceleration(s, A, bA, pA); paerr[0] = dot(a, p) + dot(v, v); }
    void addInPositionConstraintForces(const State& s, const Array_<Real>& lam, Array_<SpatialVec, ConstrainedBodyIndex>& F, Array_<Real, ConstrainedQIndex>&) const override {
        Vec3 p = findStationLocationFromState(s, bB, pB) - findStationLocationFromState(s, bA, pA); addInStationForce(s, bB, pB, lam[0] * p, F); addInStationForce(s, bA, pA, -lam[0] * p, F); }
private:
    ConstrainedBodyIndex bA, bB; Vec3 pA, pB; double d;
};

// ------------------------------------------------------------------ decoding
inline UnitVec3 readUnit(pbt::Reader& r) { double a[3]; r.unit3(a); return UnitVec3(Vec3(a[0], a[1], a[2])); }

// Decode one constraint unit for a model whose bodies are already known.
inline ConsSpec decodeConstraint(const pbt::Seg& seg, const mbgen::ModelSpec& ms, const Options& opt) {
    pbt::Reader r(seg); ConsSpec c; const int nb = ms.nBodies();
    std::vector<int> mobile; for (int i = 0; i < nb; ++i) if (mbgen::mobNU(ms.bodies[i].type) > 0) mobile.push_back(i + 1);
    {   std::vector<int> allowed; for (int t = 0; t < NumConsTypes; ++t) if ((opt.typeMask >> t & 1ull) && (!typeInfo(t).coordinateBased || !mobile.empty() || t == Custom)) allowed.push_back(t);
        if (allowed.empty()) allowed.push_back(Ball);
        c.type = allowed[r.pick((int)allowed.size())]; }
    c.b1 = r.pick(nb + 1); c.b2 = (c.b1 + 1 + r.pick(nb)) % (nb + 1); c.b3 = r.pick(nb + 1);
    // offsets: the all-zero unit must not be a degenerate case (coincident points, a rod through the centre of the default Pin joint)
    c.p1 = mbgen::readVec3(r, -1, 1) + Vec3(-0.4, 0.3, 0.6); c.p2 = mbgen::readVec3(r, -1, 1) + Vec3(0.3, 0.5, 0.2);
    c.a1 = readUnit(r); c.a2 = readUnit(r);
    c.R1 = mbgen::readRotation(r); c.R2 = mbgen::readRotation(r);
    c.length = 0.3 + 1.7 * r.unit(); c.angle = 0.4 + (3.141592653589793 - 0.8) * r.unit(); c.value = r.real(-1, 1); c.height = r.real(-1, 1);
    c.r1 = 0.2 + 0.8 * r.unit(); c.r2 = 0.2 + 0.8 * r.unit(); c.h1 = 0.5 + r.unit(); c.h2 = 0.5 + r.unit();
    {   uint32_t w = r.w(); c.rolling = (w & 1u) != 0; c.disabled = opt.allowDisabled && ((w >> 1) & 3u) == 3u; c.flavour = (w >> 3) & 1u; c.linear = ((w >> 4) & 1u) == 0 || !opt.allowNonlinearCouplers; c.nQArgs = (w >> 5) & 1u; c.nArgs = 1 + int((w >> 6) % 3u); }
    uint32_t mw[3], qw[3], uw[3]; for (int k = 0; k < 3; ++k) { mw[k] = r.w(); qw[k] = r.w(); uw[k] = r.w(); }
    for (int k = 0; k < 8; ++k) c.c[k] = r.real(-2, 2);
    if (typeInfo(c.type).coordinateBased && mobile.empty()) { c.type = Custom; c.flavour = 1; }   // only reachable for Custom
    if (typeInfo(c.type).coordinateBased && !(c.type == Custom && c.flavour == 1)) {
        const bool usesConstrainedQ = c.type == ConstantCoordinate || c.type == CoordinateCoupler || c.type == PrescribedMotion || c.type == Custom;
        for (int k = 0; k < 3; ++k) {
            c.mob[k] = mobile[mw[k] % mobile.size()]; const mbgen::BodySpec& b = ms.bodies[c.mob[k] - 1];
            c.qi[k] = int(qw[k] % uint32_t(mbgen::mobNQ(b.type, ms.euler))); c.ui[k] = int(uw[k] % uint32_t(mbgen::mobNU(b.type)));
        }
        if (c.type != CoordinateCoupler && c.type != SpeedCoupler) c.nArgs = c.type == Custom ? 2 : 1;
        // the same coordinate must not appear twice in a coupler's argument list
        if (c.type == CoordinateCoupler) for (int k = 1; k < c.nArgs; ++k) for (int j = 0; j < k; ++j) if (c.mob[k] == c.mob[j] && c.qi[k] == c.qi[j]) { c.nArgs = k; break; }
        if (c.type == SpeedCoupler) for (int k = 1; k < c.nArgs; ++k) for (int j = 0; j < k; ++j) if (c.mob[k] == c.mob[j] && c.ui[k] == c.ui[j]) { c.nArgs = k; break; }
        if (c.type != SpeedCoupler) c.nQArgs = 0;
        if (usesConstrainedQ) for (int k = 0; k < c.nArgs; ++k) if (!mbgen::mobQDotIsU(ms.bodies[c.mob[k] - 1].type)) c.qOnNonIdentityN = true;
        // leading coefficients bounded away from zero so that the equation really constrains something
        auto lead = [](double x) { return std::fabs(x) < 0.25 ? (x < 0 ? -1.0 : 1.0) : x; };
        if (c.type == CoordinateCoupler || c.type == SpeedCoupler) { c.c[1] = lead(c.c[1]); if (c.linear) { c.c[4] = c.c[5] = c.c[6] = c.c[7] = 0; if (c.type == SpeedCoupler) c.nQArgs = 0; } }
        if (c.type == Custom) { c.c[0] = lead(c.c[0]); c.c[3] = lead(c.c[3]); c.c[6] = lead(c.c[6]); }
        if (!opt.allowTimeDependence) { if (c.type == PrescribedMotion) c.c[1] = c.c[2] = c.c[3] = 0; if (c.type == Custom) c.c[2] = c.c[5] = 0; }
        if (c.type == ConstantCoordinate || c.type == PrescribedMotion) { c.value *= 0.9; c.c[0] = 0.9 * c.c[0] / 2; }
    }
    return c;
}

struct Model {
    mbgen::ModelSpec spec; std::vector<ConsSpec> cons;
    void describe(std::ostream& o) const { spec.describe(o); for (size_t i = 0; i < cons.size(); ++i) { o << " constraint " << i << ": "; cons[i].describe(o); o << "\n"; } }
};

inline bool isConstraintUnit(const pbt::Seg& s) { return (int)s.size() > mbgen::K && (s[mbgen::K] % 5u == 1u || s[mbgen::K] % 5u == 2u); }

// Decode tape units [first, first+n): body units -> mbgen model, constraint units -> constraints on it.
inline Model decode(const pbt::Tape& t, int first, int n, pbt::Reader& g0, const mbgen::Options& mo, const Options& co) {
    Model m; pbt::Tape bodyTape; std::vector<const pbt::Seg*> consSegs;
    if (n < 0) n = 0; if (first + n > (int)t.size()) n = std::max(0, (int)t.size() - first);
    bool any = false; for (int i = 0; i < n; ++i) if (isConstraintUnit(t[first + i])) any = true;
    for (int i = 0; i < n; ++i) {
        const pbt::Seg& s = t[first + i];
        bool isC = isConstraintUnit(s) || (!any && n >= 2 && i == n - 1);
        if (isC) consSegs.push_back(&s); else bodyTape.push_back(s);
    }
    if (bodyTape.empty()) bodyTape.push_back(pbt::Seg(mbgen::K, 0u));
    m.spec = mbgen::decodeModel(bodyTape, 0, (int)bodyTape.size(), g0, mo);
    for (size_t i = 0; i < consSegs.size() && (int)i < co.maxCons; ++i) m.cons.push_back(decodeConstraint(*consSegs[i], m.spec, co));
    return m;
}

// Adjust the PARAMETERS of the constraints (never the state) so that every position-level equation -- and the
// velocity-level equation of ConstantSpeed / SpeedCoupler -- is satisfied by the state stored in cm.spec at time t0:
// an assembled configuration by construction (projection is then at most a rounding-level clean-up). Parameters that
// would become degenerate (rod shorter than 0.3, ConstantAngle outside [0.4, pi-0.4], sphere radius < 0.2) are left
// alone, so the result is "assembled unless labelled otherwise": callers still project / check qerr.
inline void fitToState(Model& cm, double t0) {
    mbgen::Built tmp(cm.spec); tmp.finish(cm.spec); tmp.setState(cm.spec); tmp.state.setTime(t0); tmp.sys.realize(tmp.state, Stage::Velocity);
    const State& s = tmp.state;
    auto X = [&](int b) -> const Transform& { return tmp.mb[b].getBodyTransform(s); };
    for (ConsSpec& c : cm.cons) {
        const Transform X12 = ~X(c.b1) * X(c.b2);          // body 2 frame measured in body 1
        const Vec3 p2in1 = X12 * c.p2; const Real dist = (p2in1 - c.p1).norm();
        auto qOf = [&](int k) { return tmp.mb[c.mob[k]].getOneQ(s, c.qi[k]); };
        auto uOf = [&](int k) { return tmp.mb[c.mob[k]].getOneU(s, c.ui[k]); };
        switch (c.type) {
            case Rod: if (dist >= 0.3) c.length = dist; break;
            case Ball: c.p1 = p2in1; break;
            case Weld: c.p1 = p2in1; c.R1 = X12.R() * c.R2; break;
            case PointInPlane: c.height = dot(p2in1, Vec3(c.a1)); break;
            case PointOnLine: c.p1 = p2in1; break;
            case ConstantAngle: { Real ca = dot(Vec3(c.a1), X12.R() * Vec3(c.a2)); Real a = std::acos(std::max(-1.0, std::min(1.0, ca))); if (a >= 0.4 && a <= 3.141592653589793 - 0.4) c.angle = a; break; }
            case ConstantOrientation: c.R1 = X12.R() * c.R2; break;
            case ConstantCoordinate: c.value = qOf(0); break;
            case ConstantSpeed: c.value = uOf(0); break;
            case CoordinateCoupler: { double a[3] = {c.c[1], c.c[2], c.c[3]}, b[3] = {c.c[4], c.c[5], c.c[6]}; PolyFn f(c.nArgs, c.c[0], a, b, c.c[7]); Vector x(c.nArgs); for (int k = 0; k < c.nArgs; ++k) x[k] = qOf(k); c.c[0] -= f.calcValue(x); break; }
            case SpeedCoupler: { double a[3] = {c.c[1], c.c[2], c.c[3]}; SpeedFn f(c.nArgs, c.nQArgs, c.c[6], a, c.c[4], c.c[5]); Vector x(c.nArgs + c.nQArgs); for (int k = 0; k < c.nArgs; ++k) x[k] = uOf(k); if (c.nQArgs) x[c.nArgs] = qOf(2);
                if (c.c[6] != 0 || !c.linear) c.c[6] -= f.calcValue(x); break; }       // the linear class stays homogeneous (projectU takes care of it)
            case PrescribedMotion: { TimeFn f(c.c[0], c.c[1], c.c[2], c.c[3], 1.5 + 0.5 * c.c[4]); Vector x(1); x[0] = t0; c.c[0] += qOf(0) - f.calcValue(x); break; }
            case PointOnPlaneContact: { Vec3 z = c.R1 * Vec3(0, 0, 1); c.p1 += dot(p2in1 - c.p1, z) * z; break; }
            case SphereOnPlaneContact: { Vec3 z = c.R1 * Vec3(0, 0, 1); c.p1 += (dot(p2in1 - c.p1, z) - c.r2) * z; break; }
            case SphereOnSphereContact: if (dist - c.r2 >= 0.2) c.r1 = dist - c.r2; else if (dist >= 0.4) c.r1 = c.r2 = dist / 2; break;
            case LineOnLineContact: { Vec3 df = c.R1 * Vec3(1, 0, 0), db = X12.R() * (c.R2 * Vec3(1, 0, 0)), w = df % db;
                if (w.norm() > 1e-3) { Vec3 n = w / w.norm(); c.p1 += dot(p2in1 - c.p1, n) * n; }
                // make the outward directions consistent (normal out of F and into B): turn edge frame B half a turn about its edge if needed
                Real wsf = dot(w, c.R1 * Vec3(0, 0, 1)), wsb = dot(w, X12.R() * (c.R2 * Vec3(0, 0, 1))); if (wsf * wsb > 0) c.R2 = c.R2 * Rotation(3.141592653589793, XAxis);
                break; }
            case Custom:
                if (c.flavour == 1) { if (dist >= 0.3) c.length = dist; }
                else if (t0 != 0 && c.c[2] != 0) { Real a = qOf(0), b = qOf(1); c.c[2] = (c.c[0] * a + 0.5 * c.c[1] * b * b) / t0; }
                break;
            default: break;
        }
    }
}

// ------------------------------------------------------------------ building
inline Constraint addConstraint(mbgen::Built& m, const ConsSpec& c) {
    SimbodyMatterSubsystem& matter = m.matter;
    MobilizedBody& B1 = m.mb[c.b1]; MobilizedBody& B2 = m.mb[c.b2];
    Constraint out;
    switch (c.type) {
        case Rod: out = Constraint::Rod(B1, c.p1, B2, c.p2, c.length); break;
        case Ball: out = Constraint::Ball(B1, c.p1, B2, c.p2); break;
        case Weld: out = Constraint::Weld(B1, Transform(c.R1, c.p1), B2, Transform(c.R2, c.p2)); break;
        case PointInPlane: out = Constraint::PointInPlane(B1, c.a1, c.height, B2, c.p2); break;
        case PointOnLine: out = Constraint::PointOnLine(B1, c.a1, c.p1, B2, c.p2); break;
        case ConstantAngle: out = Constraint::ConstantAngle(B1, c.a1, B2, c.a2, c.angle); break;
        case ConstantOrientation: out = Constraint::ConstantOrientation(B1, c.R1, B2, c.R2); break;
        case NoSlip1D: out = Constraint::NoSlip1D(m.mb[c.b3], c.p1, c.a1, B1, B2); break;
        case ConstantCoordinate: out = Constraint::ConstantCoordinate(m.mb[c.mob[0]], MobilizerQIndex(c.qi[0]), c.value); break;
        case ConstantSpeed: out = Constraint::ConstantSpeed(m.mb[c.mob[0]], MobilizerUIndex(c.ui[0]), c.value); break;
        case ConstantAcceleration: out = Constraint::ConstantAcceleration(m.mb[c.mob[0]], MobilizerUIndex(c.ui[0]), c.value); break;
        case CoordinateCoupler: {
            Array_<MobilizedBodyIndex> bs; Array_<MobilizerQIndex> qs; for (int k = 0; k < c.nArgs; ++k) { bs.push_back(m.mb[c.mob[k]].getMobilizedBodyIndex()); qs.push_back(MobilizerQIndex(c.qi[k])); }
            double a[3] = {c.c[1], c.c[2], c.c[3]}, b[3] = {c.c[4], c.c[5], c.c[6]};
            out = Constraint::CoordinateCoupler(matter, new PolyFn(c.nArgs, c.c[0], a, b, c.c[7]), bs, qs); break; }
        case SpeedCoupler: {
            Array_<MobilizedBodyIndex> bs, qb; Array_<MobilizerUIndex> us; Array_<MobilizerQIndex> qs;
            for (int k = 0; k < c.nArgs; ++k) { bs.push_back(m.mb[c.mob[k]].getMobilizedBodyIndex()); us.push_back(MobilizerUIndex(c.ui[k])); }
            if (c.nQArgs > 0) { qb.push_back(m.mb[c.mob[2]].getMobilizedBodyIndex()); qs.push_back(MobilizerQIndex(c.qi[2])); }
            double a[3] = {c.c[1], c.c[2], c.c[3]};
            out = Constraint::SpeedCoupler(matter, new SpeedFn(c.nArgs, c.nQArgs, c.c[6], a, c.c[4], c.c[5]), bs, us, qb, qs); break; }
        case PrescribedMotion:
            out = Constraint::PrescribedMotion(matter, new TimeFn(c.c[0], c.c[1], c.c[2], c.c[3], 1.5 + 0.5 * c.c[4]), m.mb[c.mob[0]].getMobilizedBodyIndex(), MobilizerQIndex(c.qi[0])); break;
        case PointOnPlaneContact: out = Constraint::PointOnPlaneContact(B1, Transform(c.R1, c.p1), B2, c.p2); break;
        case SphereOnPlaneContact: out = Constraint::SphereOnPlaneContact(B1, Transform(c.R1, c.p1), B2, c.p2, c.r2, c.rolling); break;
        case SphereOnSphereContact: out = Constraint::SphereOnSphereContact(B1, c.p1, c.r1, B2, c.p2, c.r2, c.rolling); break;
        case LineOnLineContact: out = Constraint::LineOnLineContact(B1, Transform(c.R1, c.p1), c.h1, B2, Transform(c.R2, c.p2), c.h2, c.rolling); break;
        case Custom:
            if (c.flavour == 1) out = Constraint::Custom(new SqDistCustom(matter, B1, c.p1, B2, c.p2, c.length));
            else out = Constraint::Custom(new CoordCustom(matter, m.mb[c.mob[0]], c.qi[0], c.ui[0], m.mb[c.mob[1]], c.qi[1], c.ui[1], c.c));
            break;
        default: out = Constraint::Ball(B1, c.p1, B2, c.p2); break;
    }
    if (c.disabled) out.setDisabledByDefault(true);
    return out;
}

struct BuiltCons : mbgen::Built {
    std::vector<Constraint> cons;
    explicit BuiltCons(const Model& cm) : mbgen::Built(cm.spec) { for (const ConsSpec& c : cm.cons) cons.push_back(addConstraint(*this, c)); }
};

// Equation bookkeeping of one (enabled) constraint: absolute row indices in the m-vector [holonomic | nonholonomic |
// acceleration-only]; holonomic rows have the same index in qerr and uerr, nonholonomic rows the same index in uerr.
struct Rows { int mp = 0, mv = 0, ma = 0, px0 = -1, vx0 = -1, ax0 = -1; };
inline Rows rowsOf(const Constraint& c, const State& s) {
    Rows r; if (c.isDisabled(s)) return r;
    c.getNumConstraintEquationsInUse(s, r.mp, r.mv, r.ma);
    MultiplierIndex p, v, a; c.getIndexOfMultipliersInUse(s, p, v, a);
    if (r.mp) r.px0 = p; if (r.mv) r.vx0 = v; if (r.ma) r.ax0 = a;
    return r;
}

// State-dependent degenerate geometry (the constraint's own documentation excludes it): true => do not judge.
inline bool degenerateAt(const ConsSpec& c, const mbgen::Built& m, const State& s, std::string& why) {
    auto station = [&](int b, const Vec3& p) { return m.mb[b].findStationLocationInGround(s, p); };
    if (c.type == Rod || (c.type == Custom && c.flavour == 1)) { if ((station(c.b2, c.p2) - station(c.b1, c.p1)).norm() < 0.1) { why = "rod-points-coincident"; return true; } }
    if (c.type == SphereOnSphereContact) { if ((station(c.b2, c.p2) - station(c.b1, c.p1)).norm() < 0.1) { why = "sphere-centres-coincident"; return true; } }
    if (c.type == LineOnLineContact) {
        // The contact normal is sense*(df x db)/|df x db| with the sense taken from whichever of the outward directions sf (of F) and
        // sb (of B) "gives a clearer signal" (Constraint_LineOnLineContact.cpp calcPositionInfo). It is a smooth function of the pose
        // only where the edges are not nearly parallel and both outward directions call for the same sense (a physically meaningful
        // edge pair: the normal points out of F and into B).
        const Rotation& RF = m.mb[c.b1].getBodyRotation(s); const Rotation& RB = m.mb[c.b2].getBodyRotation(s);
        Vec3 df = RF * (c.R1 * Vec3(1, 0, 0)), db = RB * (c.R2 * Vec3(1, 0, 0)), sf = RF * (c.R1 * Vec3(0, 0, 1)), sb = RB * (c.R2 * Vec3(0, 0, 1)), w = df % db;
        if (w.norm() < 0.3) { why = "edges-nearly-parallel"; return true; }
        Real wsf = dot(w, sf), wsb = dot(w, sb);
        if (!((wsf > 0.1 && wsb < -0.1) || (wsf < -0.1 && wsb > 0.1))) { why = "edge-outward-directions-ambiguous"; return true; }
    }
    return false;
}

// Is every q of the state inside the documented non-singular domain of its mobilizer (DESIGN 4)? Used after
// projection moved the coordinates.
inline bool inDomain(const mbgen::ModelSpec& ms, const mbgen::Built& m, const State& s) {
    for (int i = 0; i < ms.nBodies(); ++i) {
        const mbgen::BodySpec& b = ms.bodies[i]; const MobilizedBody& mb = m.mb[i + 1]; int nq = mb.getNumQ(s);
        auto q = [&](int k) { return mb.getOneQ(s, k); };
        switch (b.type) {
            case mbgen::Universal: case mbgen::Gimbal: case mbgen::Bushing: if (std::fabs(std::cos(q(1))) < 0.25) return false; break;
            case mbgen::CantileverFreeBeam: if (std::fabs(q(0)) > 1.2 || std::fabs(q(1)) > 1.2) return false; break;
            case mbgen::SphericalCoords: { double zen = (b.negZe ? -1.0 : 1.0) * q(1) + b.ze0; if (std::fabs(std::sin(zen)) < 0.2 || std::fabs(q(2)) < 0.1) return false; break; }
            case mbgen::Ball: case mbgen::Free: case mbgen::Ellipsoid: case mbgen::LineOrientation: case mbgen::FreeLine:
                if (ms.euler) { if (std::fabs(std::cos(q(1))) < 0.25) return false; }
                else { double n2 = 0; for (int k = 0; k < 4; ++k) n2 += q(k) * q(k); if (n2 < 0.2) return false; }
                break;
            default: break;
        }
        for (int k = 0; k < nq; ++k) if (!std::isfinite(q(k)) || std::fabs(q(k)) > 50) return false;
    }
    return true;
}

inline void labelModel(pbt::Ctx& ctx, const Model& cm) {
    mbgen::labelModel(ctx, cm.spec);
    for (const ConsSpec& c : cm.cons) {
        std::string l = std::string("cons:") + consName(c.type); if (c.type == Custom) l += c.flavour ? "/sqdist" : "/coord";
        if ((c.type == SphereOnPlaneContact || c.type == SphereOnSphereContact || c.type == LineOnLineContact)) l += c.rolling ? "/rolling" : "/slipping";
        ctx.label(l);
        if (c.disabled) ctx.label("cons:disabled");
        if (c.twoBody()) {
            int lo = std::min(c.b1, c.b2), hi = std::max(c.b1, c.b2); bool anc = false;
            if (lo == 0) ctx.label("pair:Ground-body");
            else { for (int b = hi; b != 0; b = cm.spec.bodies[b - 1].parent) if (cm.spec.bodies[b - 1].parent == lo) anc = true; ctx.label(anc ? "pair:ancestor-descendant" : "pair:separate-branches"); }
        } else if (c.qOnNonIdentityN) ctx.label("cons:q-of-mobilizer-with-qdot!=u");
    }
    ctx.label("ncons:" + std::to_string(cm.cons.size()));
}

} // namespace consgen
