// geo2_mesh.h -- mesh generators, mesh-file writers and brute-force geometric
// references for C36 (and mesh shapes of C35).  Everything here is written from
// the documentation of the formats / textbook geometry, independent of the library.
#pragma once
#include "pbt.h"
#include "SimTKmath.h"
#include <array>
#include <map>
#include <set>

namespace geo2 {
using SimTK::Vec3; using SimTK::Vec2; using SimTK::Real;
typedef long double LD;
struct V3 { LD x, y, z; };
inline V3 operator-(V3 a, V3 b) { return {a.x-b.x, a.y-b.y, a.z-b.z}; }
inline V3 operator+(V3 a, V3 b) { return {a.x+b.x, a.y+b.y, a.z+b.z}; }
inline V3 operator*(LD s, V3 a) { return {s*a.x, s*a.y, s*a.z}; }
inline LD dot(V3 a, V3 b) { return a.x*b.x + a.y*b.y + a.z*b.z; }
inline V3 cross(V3 a, V3 b) { return {a.y*b.z-a.z*b.y, a.z*b.x-a.x*b.z, a.x*b.y-a.y*b.x}; }
inline LD norm(V3 a) { return std::sqrt(dot(a, a)); }
inline V3 toL(const Vec3& v) { return {(LD)v[0], (LD)v[1], (LD)v[2]}; }
inline Vec3 toD(V3 v) { return Vec3((double)v.x, (double)v.y, (double)v.z); }

struct Rng { uint64_t s; explicit Rng(uint64_t seed) : s(seed * 0x9E3779B97F4A7C15ull + 0x1234567ull) {}
    uint64_t next() { uint64_t z = (s += 0x9E3779B97F4A7C15ull); z = (z ^ (z >> 30)) * 0xBF58476D1CE4E5B9ull; z = (z ^ (z >> 27)) * 0x94D049BB133111EBull; return z ^ (z >> 31); }
    double uni() { return (next() >> 11) / 9007199254740992.0; }           // [0,1)
    double sym() { return 2 * uni() - 1; } };

// ------------------------------------------------------------------ generated mesh
struct GenMesh {
    std::vector<Vec3> V; std::vector<std::vector<int> > F;   // polygon faces, counter-clockwise seen from outside
    bool closed = true, starEmbedded = true; std::string kind; int defect = 0;
    std::vector<std::array<int,3> > tris() const {          // fan triangulation (same diagonal as the library for quads)
        std::vector<std::array<int,3> > T;
        for (auto& f : F) for (size_t k = 1; k + 1 < f.size(); ++k) T.push_back({f[0], f[k], f[k+1]});
        return T; }
};

inline void subdivide(std::vector<Vec3>& V, std::vector<std::vector<int> >& F, bool project) {
    std::map<std::pair<int,int>, int> mid; std::vector<std::vector<int> > G;
    auto M = [&](int a, int b) { auto k = std::make_pair(std::min(a, b), std::max(a, b)); auto it = mid.find(k); if (it != mid.end()) return it->second;
        Vec3 m = (V[a] + V[b]) / 2; if (project) m = m / m.norm(); V.push_back(m); return mid[k] = (int)V.size() - 1; };
    for (auto& f : F) { int a = f[0], b = f[1], c = f[2], ab = M(a, b), bc = M(b, c), ca = M(c, a);
        G.push_back({a, ab, ca}); G.push_back({ab, b, bc}); G.push_back({ca, bc, c}); G.push_back({ab, bc, ca}); }
    F = G;
}
inline double signedVolume(const GenMesh& m) { double v = 0; for (auto& t : m.tris()) v += SimTK::dot(m.V[t[0]], SimTK::cross(m.V[t[1]], m.V[t[2]])); return v / 6; }

// kind: 0 tetra, 1 octa-sphere, 2 icosphere, 3 box grid (quads), 4 torus (quads), 5 prism with n-gon caps, 6 two components
inline GenMesh makeBase(int kind, int res, int a, int b, Rng& rng, double noise) {
    GenMesh m;
    auto radial = [&](GenMesh& g) { if (noise > 0) for (auto& v : g.V) v *= 1 + noise * rng.sym(); };
    if (kind == 0) { m.kind = "tetra"; m.V = {Vec3(1,1,1), Vec3(1,-1,-1), Vec3(-1,1,-1), Vec3(-1,-1,1)}; m.F = {{0,1,2},{0,3,1},{0,2,3},{1,3,2}}; radial(m); }
    else if (kind == 1) { m.kind = "octasphere" + std::to_string(res); m.V = {Vec3(1,0,0),Vec3(-1,0,0),Vec3(0,1,0),Vec3(0,-1,0),Vec3(0,0,1),Vec3(0,0,-1)};
        m.F = {{0,2,4},{2,1,4},{1,3,4},{3,0,4},{2,0,5},{1,2,5},{3,1,5},{0,3,5}}; for (int i = 0; i < res; ++i) subdivide(m.V, m.F, true); radial(m); }
    else if (kind == 2) { m.kind = "icosphere" + std::to_string(res); const double t = (1 + std::sqrt(5.0)) / 2;
        m.V = {Vec3(-1,t,0),Vec3(1,t,0),Vec3(-1,-t,0),Vec3(1,-t,0),Vec3(0,-1,t),Vec3(0,1,t),Vec3(0,-1,-t),Vec3(0,1,-t),Vec3(t,0,-1),Vec3(t,0,1),Vec3(-t,0,-1),Vec3(-t,0,1)};
        for (auto& v : m.V) v = v / v.norm();
        m.F = {{0,11,5},{0,5,1},{0,1,7},{0,7,10},{0,10,11},{1,5,9},{5,11,4},{11,10,2},{10,7,6},{7,1,8},{3,9,4},{3,4,2},{3,2,6},{3,6,8},{3,8,9},{4,9,5},{2,4,11},{6,2,10},{8,6,7},{9,8,1}};
        for (int i = 0; i < res; ++i) subdivide(m.V, m.F, true); radial(m); }
    else if (kind == 3) { int n[3] = {1 + res % 6, 1 + a % 6, 1 + b % 6}; m.kind = "boxgrid" + std::to_string(n[0]) + "x" + std::to_string(n[1]) + "x" + std::to_string(n[2]);
        std::map<std::array<int,3>, int> id;
        auto vid = [&](int i, int j, int k) { std::array<int,3> key = {i, j, k}; auto it = id.find(key); if (it != id.end()) return it->second;
            m.V.push_back(Vec3(-1 + 2.0 * i / n[0], -1 + 2.0 * j / n[1], -1 + 2.0 * k / n[2])); return id[key] = (int)m.V.size() - 1; };
        for (int ax = 0; ax < 3; ++ax) { int u = (ax + 1) % 3, w = (ax + 2) % 3;
            for (int side = 0; side < 2; ++side) for (int i = 0; i < n[u]; ++i) for (int j = 0; j < n[w]; ++j) {
                int c[4][3]; int du[4] = {0,1,1,0}, dw[4] = {0,0,1,1};
                for (int q = 0; q < 4; ++q) { c[q][ax] = side ? n[ax] : 0; c[q][u] = i + du[q]; c[q][w] = j + dw[q]; }
                std::vector<int> f; for (int q = 0; q < 4; ++q) f.push_back(vid(c[q][0], c[q][1], c[q][2]));
                if (!side) std::reverse(f.begin(), f.end()); m.F.push_back(f); } }
        radial(m); }
    else if (kind == 4) { int nu = 3 + res % 22, nv = 3 + a % 14; double R = 1, r = 0.2 + 0.05 * (b % 9); m.kind = "torus" + std::to_string(nu) + "x" + std::to_string(nv);
        bool allow = nu >= 8 && nv >= 6;
        for (int i = 0; i < nu; ++i) for (int j = 0; j < nv; ++j) { double u = 2 * M_PI * i / nu, v = 2 * M_PI * j / nv, rr = r * (1 + (allow ? std::min(noise, 0.3) * rng.sym() : 0));
            m.V.push_back(Vec3((R + rr * std::cos(v)) * std::cos(u), (R + rr * std::cos(v)) * std::sin(u), rr * std::sin(v))); }
        for (int i = 0; i < nu; ++i) for (int j = 0; j < nv; ++j) { int i1 = (i + 1) % nu, j1 = (j + 1) % nv; m.F.push_back({i * nv + j, i1 * nv + j, i1 * nv + j1, i * nv + j1}); } }
    else if (kind == 5) { int n = 3 + res % 6; m.kind = "prism" + std::to_string(n);
        for (int s = 0; s < 2; ++s) for (int i = 0; i < n; ++i) m.V.push_back(Vec3(std::cos(2 * M_PI * i / n), std::sin(2 * M_PI * i / n), s ? 0.7 : -0.7));
        std::vector<int> bot, top; for (int i = 0; i < n; ++i) { bot.push_back(n - 1 - i); top.push_back(n + i); } m.F.push_back(bot); m.F.push_back(top);
        for (int i = 0; i < n; ++i) { int i1 = (i + 1) % n; m.F.push_back({i, i1, n + i1, n + i}); }
        if (noise > 0) for (auto& v : m.V) v *= 1 + std::min(noise, 0.15) * rng.sym(); }
    else { m = makeBase(1 + res % 2, a % 3, 0, 0, rng, noise); GenMesh t = makeBase(b % 2 ? 3 : 0, 1, 1, 0, rng, noise); int off = (int)m.V.size();
        for (auto& v : t.V) m.V.push_back(0.5 * v + Vec3(3.5, 0.3, -0.2)); for (auto f : t.F) { for (auto& i : f) i += off; m.F.push_back(f); } m.kind = "two:" + m.kind + "+" + t.kind; }
    return m;
}

// ------------------------------------------------------------------ brute-force references (long double)
struct Closest { LD d; V3 p; int feature; };   // feature: 0 face interior, 1 edge, 2 vertex
inline Closest closestPtTri(V3 p, V3 a, V3 b, V3 c) {     // Ericson, Real-Time Collision Detection 5.1.5
    V3 ab = b - a, ac = c - a, ap = p - a; LD d1 = dot(ab, ap), d2 = dot(ac, ap);
    auto R = [&](V3 q, int f) { return Closest{norm(p - q), q, f}; };
    if (d1 <= 0 && d2 <= 0) return R(a, 2);
    V3 bp = p - b; LD d3 = dot(ab, bp), d4 = dot(ac, bp); if (d3 >= 0 && d4 <= d3) return R(b, 2);
    LD vc = d1 * d4 - d3 * d2; if (vc <= 0 && d1 >= 0 && d3 <= 0) { LD v = d1 / (d1 - d3); return R(a + v * ab, 1); }
    V3 cp = p - c; LD d5 = dot(ab, cp), d6 = dot(ac, cp); if (d6 >= 0 && d5 <= d6) return R(c, 2);
    LD vb = d5 * d2 - d1 * d6; if (vb <= 0 && d2 >= 0 && d6 <= 0) { LD w = d2 / (d2 - d6); return R(a + w * ac, 1); }
    LD va = d3 * d6 - d5 * d4; if (va <= 0 && (d4 - d3) >= 0 && (d5 - d6) >= 0) { LD w = (d4 - d3) / ((d4 - d3) + (d5 - d6)); return R(b + w * (c - b), 1); }
    LD den = 1 / (va + vb + vc), v = vb * den, w = vc * den; return R(a + v * ab + w * ac, 0);
}
// generalized winding number (van Oosterom & Strackee solid angles), = 1 inside a closed outward-oriented surface
inline LD windingNumber(V3 q, const std::vector<V3>& A, const std::vector<V3>& B, const std::vector<V3>& C) {
    LD tot = 0;
    for (size_t f = 0; f < A.size(); ++f) { V3 a = A[f] - q, b = B[f] - q, c = C[f] - q; LD la = norm(a), lb = norm(b), lc = norm(c);
        LD num = dot(a, cross(b, c)), den = la * lb * lc + dot(a, b) * lc + dot(a, c) * lb + dot(b, c) * la; tot += 2 * std::atan2(num, den); }
    return tot / (4 * 3.14159265358979323846264338327950288L);
}
struct RayHit { bool parallel; LD t, u, v, w, cosang; };   // barycentric u (vertex a), v (b), w (c)
inline RayHit rayTri(V3 o, V3 d, V3 a, V3 b, V3 c) {
    RayHit h; V3 e1 = b - a, e2 = c - a, n = cross(e1, e2); LD nn = norm(n), nd = dot(n, d); h.cosang = nn > 0 ? std::fabs(nd) / nn : 0; h.parallel = !(h.cosang > 0);
    if (h.parallel) { h.t = h.u = h.v = h.w = 0; return h; }
    h.t = dot(n, a - o) / nd; V3 x = o + h.t * d - a;      // barycentric by areas
    h.v = dot(cross(x, e2), n) / (nn * nn); h.w = dot(cross(e1, x), n) / (nn * nn); h.u = 1 - h.v - h.w; return h;
}
// Site predicate of the point/triangle "region 6" finding (ContactGeometry::TriangleMesh::findNearestPointToFace): true iff the query
// falls (with a 1e-9 relative margin) into Eberly's region 6, sub-branch "temp1 <= temp0, temp1 > 0", with sign(e) != sign(d).
inline bool eberlyRegion6Site(V3 q, V3 v1, V3 v2, V3 v3) {
    V3 e0 = v2 - v1, e1 = v3 - v1, dl = v1 - q; LD a = dot(e0, e0), b = dot(e0, e1), c = dot(e1, e1), d = dot(e0, dl), e = dot(e1, dl), det = a * c - b * b, s = b * e - c * d, t = b * d - a * e;
    LD m = 1e-9L * (std::fabs(b * e) + std::fabs(c * d) + std::fabs(b * d) + std::fabs(a * e) + a * c), m2 = 1e-9L * (a + std::fabs(b) + std::fabs(d) + std::fabs(e));
    if (s + t <= det - m || s < -m || !(t < m)) return false;
    LD temp0 = b + e, temp1 = a + d; if (temp1 > temp0 + m2 || temp1 <= -m2) return false;
    if (std::fabs(e) <= m2 || std::fabs(d) <= m2) return true;
    return (e >= 0) != (d >= 0);
}
inline LD distPointLine(V3 p, V3 o, V3 d) { V3 x = p - o; LD s = dot(x, d); if (s < 0) s = 0; return norm(x - s * d); }   // half line

// minimal enclosing ball upper bound (Badoiu-Clarkson core-set iteration): returns a radius R >= Rmin (R -> Rmin), and the centre
inline LD enclosingRadius(const std::vector<V3>& P, V3& c) {
    c = P[0]; for (int it = 1; it <= 2000; ++it) { size_t far = 0; LD fd = -1; for (size_t i = 0; i < P.size(); ++i) { LD d = norm(P[i] - c); if (d > fd) { fd = d; far = i; } } c = c + (1.0L / (it + 1)) * (P[far] - c); }
    LD r = 0; for (auto& p : P) r = std::max(r, norm(p - c)); return r;
}

// ------------------------------------------------------------------ mesh file writers (from the format documentation)
struct FileVar {            // benign syntactic variations
    int fmt = 0;            // 0 obj, 1 vtp, 2 stl ascii, 3 stl binary
    bool crlf = false, comments = false, blanks = false, negIdx = false, interleave = false, extraCmds = false, cont = false, wcoord = false;
    int objRefs = 0;        // 0 "v", 1 "v/vt/vn", 2 "v/vt", 3 "v//vn"
    bool upper = false, noLoop = false, facetnormal = false, zeroNormal = false, solidHeader = false, indent = false, float32 = false, pointData = false, stla = false;
    std::string describe() const { std::ostringstream o; const char* n[] = {"obj", "vtp", "stl-ascii", "stl-binary"}; o << n[fmt];
        if (crlf) o << " crlf"; if (comments) o << " comments"; if (blanks) o << " blanks"; if (negIdx) o << " negidx"; if (interleave) o << " interleave"; if (extraCmds) o << " extracmds"; if (cont) o << " continuation";
        if (wcoord) o << " wcoord"; if (objRefs) o << " refs" << objRefs; if (upper) o << " upper"; if (noLoop) o << " noloop"; if (facetnormal) o << " facetnormal"; if (zeroNormal) o << " zeronormal";
        if (solidHeader) o << " solidheader"; if (indent) o << " indent"; if (float32) o << " float32"; if (pointData) o << " pointdata"; if (stla) o << " .stla"; return o.str(); }
};
inline std::string num(double x) { char b[40]; snprintf(b, sizeof b, "%.17g", x); return b; }
inline Vec3 polyNormal(const GenMesh& m, const std::vector<int>& f) { Vec3 n(0); for (size_t k = 1; k + 1 < f.size(); ++k) n += SimTK::cross(m.V[f[k]] - m.V[f[0]], m.V[f[k+1]] - m.V[f[0]]); double l = n.norm(); return l > 0 ? n / l : Vec3(0, 0, 1); }

inline std::string writeMesh(const GenMesh& m, const FileVar& fv) {
    std::ostringstream o; const char* nl = fv.crlf ? "\r\n" : "\n";
    if (fv.fmt == 0) {
        if (fv.comments) o << "# written by the C36 harness" << nl; if (fv.extraCmds) o << "mtllib none.mtl" << nl << "o object1" << nl;
        size_t nextV = 0; int nvt = 0, nvn = 0;
        auto emitV = [&](size_t upto) { for (; nextV < upto; ++nextV) { o << (fv.indent ? "  v " : "v ") << num(m.V[nextV][0]) << " " << num(m.V[nextV][1]) << " " << num(m.V[nextV][2]); if (fv.wcoord) o << " 1.0"; o << nl; if (fv.blanks && nextV % 7 == 3) o << nl; } };
        if (!fv.interleave) emitV(m.V.size());
        for (size_t fi = 0; fi < m.F.size(); ++fi) { auto& f = m.F[fi];
            if (fv.interleave) { size_t need = 0; for (int i : f) need = std::max(need, (size_t)i + 1); emitV(need); }
            if (fv.objRefs == 1 || fv.objRefs == 2) for (size_t k = 0; k < f.size(); ++k) { o << "vt " << num(0.25 * k) << " " << num(0.5) << nl; ++nvt; }
            if (fv.objRefs == 1 || fv.objRefs == 3) { Vec3 n = polyNormal(m, f); for (size_t k = 0; k < f.size(); ++k) { o << "vn " << num(n[0]) << " " << num(n[1]) << " " << num(n[2]) << nl; ++nvn; } }
            if (fv.extraCmds && fi % 5 == 0) o << "g group" << fi << nl << "s off" << nl << "usemtl m" << nl;
            if (fv.comments && fi % 4 == 1) o << "# face " << fi << nl;
            o << "f";
            for (size_t k = 0; k < f.size(); ++k) { long idx = fv.negIdx ? (long)f[k] - (long)nextV : (long)f[k] + 1; o << " " << idx;
                if (fv.objRefs == 1) o << "/" << nvt - (int)f.size() + (int)k + 1 << "/" << nvn - (int)f.size() + (int)k + 1;
                else if (fv.objRefs == 2) o << "/" << nvt - (int)f.size() + (int)k + 1; else if (fv.objRefs == 3) o << "//" << nvn - (int)f.size() + (int)k + 1;
                if (fv.cont && k == 0 && f.size() > 1) o << " \\" << nl; }
            o << nl; }
        if (fv.interleave) emitV(m.V.size());
    } else if (fv.fmt == 1) {
        size_t np = m.V.size(), nf = m.F.size();
        o << "<?xml version=\"1.0\"?>" << nl; if (fv.comments) o << "<!-- written by the C36 harness -->" << nl;
        o << "<VTKFile type=\"PolyData\" version=\"0.1\" byte_order=\"LittleEndian\">" << nl << "<PolyData>" << nl
          << "<Piece NumberOfPoints=\"" << np << "\" NumberOfVerts=\"0\" NumberOfLines=\"0\" NumberOfStrips=\"0\" NumberOfPolys=\"" << nf << "\">" << nl;
        if (fv.pointData) { o << "<PointData Normals=\"Normals\">" << nl << "<DataArray type=\"Float32\" Name=\"Normals\" NumberOfComponents=\"3\" format=\"ascii\">" << nl;
            for (size_t i = 0; i < np; ++i) o << "0 0 1" << (i % 3 == 2 ? nl : " "); o << nl << "</DataArray>" << nl << "</PointData>" << nl; }
        o << "<Points>" << nl << "<DataArray type=\"" << (fv.float32 ? "Float32" : "Float64") << "\" NumberOfComponents=\"3\" format=\"ascii\">" << nl;
        for (size_t i = 0; i < np; ++i) { o << (fv.indent ? "   " : "") << num(m.V[i][0]) << " " << num(m.V[i][1]) << " " << num(m.V[i][2]) << ((fv.blanks ? i % 2 == 1 : true) ? nl : " "); }
        o << nl << "</DataArray>" << nl << "</Points>" << nl;
        if (fv.extraCmds) o << "<Verts></Verts>" << nl << "<Lines></Lines>" << nl;
        o << "<Polys>" << nl << "<DataArray type=\"Int32\" Name=\"connectivity\" format=\"ascii\">" << nl;
        for (auto& f : m.F) { for (int i : f) o << i << " "; o << nl; }
        o << "</DataArray>" << nl << "<DataArray type=\"Int32\" Name=\"offsets\" format=\"ascii\">" << nl; size_t off = 0; for (auto& f : m.F) { off += f.size(); o << off << " "; }
        o << nl << "</DataArray>" << nl << "</Polys>" << nl << "</Piece>" << nl << "</PolyData>" << nl << "</VTKFile>" << nl;
    } else if (fv.fmt == 2) {
        auto kw = [&](std::string s) { if (fv.upper) for (auto& ch : s) ch = (char)toupper(ch); return s; };
        std::string ind = fv.indent ? "    " : "";
        o << kw("solid") << " c36mesh" << nl; if (fv.comments) o << "# a comment" << nl << "! another" << nl << "$ third" << nl; if (fv.extraCmds) o << "color 0.5 0.5 0.5" << nl;
        for (size_t fi = 0; fi < m.F.size(); ++fi) { auto& f = m.F[fi]; Vec3 n = fv.zeroNormal ? Vec3(0) : polyNormal(m, f);
            o << ind << (fv.facetnormal ? kw("facetnormal") : kw("facet") + " " + kw("normal")) << " " << num(n[0]) << " " << num(n[1]) << " " << num(n[2]) << nl;
            if (!fv.noLoop) o << ind << ind << kw("outer loop") << nl; if (fv.blanks && fi % 3 == 0) o << nl;
            for (int i : f) o << ind << ind << ind << kw("vertex") << " " << num(m.V[i][0]) << " " << num(m.V[i][1]) << " " << num(m.V[i][2]) << nl;
            if (!fv.noLoop) o << ind << ind << kw("endloop") << nl; o << ind << kw("endfacet") << nl; if (fv.comments && fi % 5 == 2) o << "# facet " << fi << " done" << nl; }
        o << kw("endsolid") << " c36mesh" << nl;
    } else {
        char hdr[80]; memset(hdr, ' ', 80); const char* h = fv.solidHeader ? "solid binary written by the C36 harness" : "binary stl written by the C36 harness"; memcpy(hdr, h, strlen(h)); o.write(hdr, 80);
        auto T = m.tris(); uint32_t nf = (uint32_t)T.size(); o.write((const char*)&nf, 4);
        for (auto& t : T) { Vec3 n = fv.zeroNormal ? Vec3(0) : polyNormal(m, {t[0], t[1], t[2]}); float b[12]; for (int k = 0; k < 3; ++k) b[k] = (float)n[k];
            for (int v = 0; v < 3; ++v) for (int k = 0; k < 3; ++k) b[3 + 3 * v + k] = (float)m.V[t[v]][k]; o.write((const char*)b, 48); uint16_t attr = 0; o.write((const char*)&attr, 2); }
    }
    return o.str();
}
inline const char* fileExt(const FileVar& fv) { return fv.fmt == 0 ? ".obj" : fv.fmt == 1 ? ".vtp" : (fv.stla && fv.fmt == 2) ? ".stla" : ".stl"; }

} // namespace geo2
