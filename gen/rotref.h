// rotref.h -- small long-double reference algebra for the SimTKcommon "Mechanics"
// harnesses (C27 rotations/transforms, C28 angular-velocity helpers, C29 mass
// properties). Everything here is written from the textbook definitions; nothing
// calls the library, so it can serve as an independent oracle.
#pragma once
#include <cmath>
#include <sstream>
#include <string>

namespace rr {
typedef long double LD;
static const LD PI = 3.14159265358979323846264338327950288L;

struct V3 {
    LD v[3];
    V3() { v[0] = v[1] = v[2] = 0; }
    V3(LD a, LD b, LD c) { v[0] = a; v[1] = b; v[2] = c; }
    LD& operator[](int i) { return v[i]; }
    LD operator[](int i) const { return v[i]; }
};
inline V3 operator+(V3 a, V3 b) { return V3(a[0] + b[0], a[1] + b[1], a[2] + b[2]); }
inline V3 operator-(V3 a, V3 b) { return V3(a[0] - b[0], a[1] - b[1], a[2] - b[2]); }
inline V3 operator-(V3 a) { return V3(-a[0], -a[1], -a[2]); }
inline V3 operator*(LD s, V3 a) { return V3(s * a[0], s * a[1], s * a[2]); }
inline LD dot(V3 a, V3 b) { return a[0] * b[0] + a[1] * b[1] + a[2] * b[2]; }
inline V3 cross(V3 a, V3 b) { return V3(a[1] * b[2] - a[2] * b[1], a[2] * b[0] - a[0] * b[2], a[0] * b[1] - a[1] * b[0]); }
inline LD norm(V3 a) { return std::sqrt(dot(a, a)); }
inline LD maxAbs(V3 a) { return std::max(std::fabs(a[0]), std::max(std::fabs(a[1]), std::fabs(a[2]))); }
inline V3 unit(V3 a) { LD n = norm(a); return (1 / n) * a; }

struct M3 {
    LD m[3][3];
    M3() { for (int i = 0; i < 3; ++i) for (int j = 0; j < 3; ++j) m[i][j] = 0; }
    LD* operator[](int i) { return m[i]; }
    const LD* operator[](int i) const { return m[i]; }
    V3 col(int j) const { return V3(m[0][j], m[1][j], m[2][j]); }
    V3 row(int i) const { return V3(m[i][0], m[i][1], m[i][2]); }
};
inline M3 ident() { M3 r; r[0][0] = r[1][1] = r[2][2] = 1; return r; }
inline M3 operator*(const M3& a, const M3& b) { M3 r; for (int i = 0; i < 3; ++i) for (int j = 0; j < 3; ++j) { LD s = 0; for (int k = 0; k < 3; ++k) s += a[i][k] * b[k][j]; r[i][j] = s; } return r; }
inline V3 operator*(const M3& a, V3 b) { return V3(dot(a.row(0), b), dot(a.row(1), b), dot(a.row(2), b)); }
inline M3 operator+(const M3& a, const M3& b) { M3 r; for (int i = 0; i < 3; ++i) for (int j = 0; j < 3; ++j) r[i][j] = a[i][j] + b[i][j]; return r; }
inline M3 operator-(const M3& a, const M3& b) { M3 r; for (int i = 0; i < 3; ++i) for (int j = 0; j < 3; ++j) r[i][j] = a[i][j] - b[i][j]; return r; }
inline M3 operator*(LD s, const M3& a) { M3 r; for (int i = 0; i < 3; ++i) for (int j = 0; j < 3; ++j) r[i][j] = s * a[i][j]; return r; }
inline M3 tr(const M3& a) { M3 r; for (int i = 0; i < 3; ++i) for (int j = 0; j < 3; ++j) r[i][j] = a[j][i]; return r; }
inline LD maxAbs(const M3& a) { LD e = 0; for (int i = 0; i < 3; ++i) for (int j = 0; j < 3; ++j) e = std::max(e, std::fabs(a[i][j])); return e; }
inline LD maxAbsDiff(const M3& a, const M3& b) { return maxAbs(a - b); }
inline LD det(const M3& a) { return dot(a.col(0), cross(a.col(1), a.col(2))); }
inline LD trace(const M3& a) { return a[0][0] + a[1][1] + a[2][2]; }
// max |R^T R - I|
inline LD orthoErr(const M3& a) { return maxAbsDiff(tr(a) * a, ident()); }
inline M3 skew(V3 w) { M3 r; r[0][1] = -w[2]; r[0][2] = w[1]; r[1][0] = w[2]; r[1][2] = -w[0]; r[2][0] = -w[1]; r[2][1] = w[0]; return r; }
inline M3 outer(V3 a, V3 b) { M3 r; for (int i = 0; i < 3; ++i) for (int j = 0; j < 3; ++j) r[i][j] = a[i] * b[j]; return r; }

// right-handed rotation by angle a about coordinate axis ax (0,1,2)
inline M3 axisRot(int ax, LD a) {
    LD c = std::cos(a), s = std::sin(a); M3 R = ident(); int i = (ax + 1) % 3, j = (ax + 2) % 3;
    R[i][i] = c; R[j][j] = c; R[i][j] = -s; R[j][i] = s; return R;
}
// Rodrigues: rotation by angle a about UNIT vector u
inline M3 rodrigues(LD a, V3 u) {
    LD c = std::cos(a), s = std::sin(a);
    return c * ident() + s * skew(u) + (1 - c) * outer(u, u);
}
// exponential map of a rotation vector w (angle |w| about w/|w|)
inline M3 expMap(V3 w) {
    LD th = norm(w); if (th == 0) return ident();
    if (th < 1e-6L) { M3 K = skew(w); return ident() + K + 0.5L * (K * K); }  // error O(th^3) = 1e-18
    return rodrigues(th, (1 / th) * w);
}
// rotation matrix of a (not necessarily unit) quaternion q = (w,x,y,z), normalised here
inline M3 fromQuat(const LD qin[4]) {
    LD n = std::sqrt(qin[0] * qin[0] + qin[1] * qin[1] + qin[2] * qin[2] + qin[3] * qin[3]);
    LD w = qin[0] / n, x = qin[1] / n, y = qin[2] / n, z = qin[3] / n; M3 R;
    R[0][0] = 1 - 2 * (y * y + z * z); R[0][1] = 2 * (x * y - w * z); R[0][2] = 2 * (x * z + w * y);
    R[1][0] = 2 * (x * y + w * z); R[1][1] = 1 - 2 * (x * x + z * z); R[1][2] = 2 * (y * z - w * x);
    R[2][0] = 2 * (x * z - w * y); R[2][1] = 2 * (y * z + w * x); R[2][2] = 1 - 2 * (x * x + y * y);
    return R;
}
// Hamilton product
inline void quatMul(const LD a[4], const LD b[4], LD r[4]) {
    r[0] = a[0] * b[0] - a[1] * b[1] - a[2] * b[2] - a[3] * b[3];
    r[1] = a[0] * b[1] + a[1] * b[0] + a[2] * b[3] - a[3] * b[2];
    r[2] = a[0] * b[2] - a[1] * b[3] + a[2] * b[0] + a[3] * b[1];
    r[3] = a[0] * b[3] + a[1] * b[2] - a[2] * b[1] + a[3] * b[0];
}
// rotation angle (0..pi) of a proper rotation matrix, accurate near 0 and near pi
inline LD rotAngle(const M3& R) {
    V3 s(R[2][1] - R[1][2], R[0][2] - R[2][0], R[1][0] - R[0][1]);    // 2 sin(a) u
    return std::atan2(norm(s), trace(R) - 1);                           // 2 sin a , 2 cos a
}

// 3x3 inverse by adjugate (long double)
inline M3 inv3(const M3& a) {
    M3 r; LD d = det(a);
    V3 c0 = cross(a.col(1), a.col(2)), c1 = cross(a.col(2), a.col(0)), c2 = cross(a.col(0), a.col(1));
    for (int j = 0; j < 3; ++j) { r[0][j] = c0[j] / d; r[1][j] = c1[j] / d; r[2][j] = c2[j] / d; }
    return r;
}
// rotation vector (log map) of a rotation close to identity: vee of the skew part, exact to O(angle^3)
inline V3 smallRotVec(const M3& E) {
    V3 s(0.5L * (E[2][1] - E[1][2]), 0.5L * (E[0][2] - E[2][0]), 0.5L * (E[1][0] - E[0][1]));   // sin(a) u
    LD sn = norm(s); if (sn == 0) return s;
    LD a = std::atan2(sn, 0.5L * (trace(E) - 1));
    return (a / sn) * s;
}
// body-fixed Euler sequence (axes a[0],a[1],a[2] about successively rotated axes):  R = A_a0(q0) A_a1(q1) A_a2(q2).
// NInvP maps qdot to the angular velocity expressed in the parent: its columns are the instantaneous rotation axes.
struct EulerRef { M3 R, NInvP, NInvB, NP, NB; };
inline EulerRef eulerRef(const int a[3], const LD q[3]) {
    EulerRef o; M3 A0 = axisRot(a[0], q[0]), A1 = axisRot(a[1], q[1]), A2 = axisRot(a[2], q[2]);
    o.R = A0 * A1 * A2;
    V3 e0, e1, e2; e0[a[0]] = 1; e1[a[1]] = 1; e2[a[2]] = 1;
    V3 c0 = e0, c1 = A0 * e1, c2 = (A0 * A1) * e2;
    for (int i = 0; i < 3; ++i) { o.NInvP[i][0] = c0[i]; o.NInvP[i][1] = c1[i]; o.NInvP[i][2] = c2[i]; }
    o.NInvB = tr(o.R) * o.NInvP; o.NP = inv3(o.NInvP); o.NB = inv3(o.NInvB);
    return o;
}
// coordinates of rotation Rt in the chart containing q0 (Newton on the rotation error; converges for Rt near R(q0))
inline void eulerSolve(const int a[3], const M3& Rt, const LD q0[3], LD q[3]) {
    q[0] = q0[0]; q[1] = q0[1]; q[2] = q0[2];
    for (int it = 0; it < 8; ++it) {
        EulerRef r = eulerRef(a, q);
        V3 e = smallRotVec(Rt * tr(r.R));          // parent-frame rotation vector taking R(q) to Rt
        V3 dq = r.NP * e;
        q[0] += dq[0]; q[1] += dq[1]; q[2] += dq[2];
        if (maxAbs(dq) < 1e-19L) break;
    }
}
inline LD wrapPi(LD a) { a = std::fmod(a, 2 * PI); if (a > PI) a -= 2 * PI; if (a < -PI) a += 2 * PI; return a; }

inline std::string show(V3 a) { std::ostringstream o; o.precision(17); o << "(" << (double)a[0] << "," << (double)a[1] << "," << (double)a[2] << ")"; return o.str(); }
inline std::string show(const M3& a) { std::ostringstream o; o.precision(17); o << "["; for (int i = 0; i < 3; ++i) { o << (i ? "; " : ""); for (int j = 0; j < 3; ++j) o << (j ? " " : "") << (double)a[i][j]; } o << "]"; return o.str(); }
} // namespace rr
