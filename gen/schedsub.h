// schedsub.h -- a user-written Subsystem that owns scheduled events and scheduled reports (C22).
//
// Owner: det. Uses gen/evsys.h (READ-ONLY here) for the call log (evsys::Shared / handle / report), so the calls of
// this subsystem's handlers appear in the same log, with the same record format, as those of the handlers that
// System::addEventHandler / addEventReporter put into the DefaultSystemSubsystem.
//
// Written from the documentation in SubsystemGuts.h: a concrete Subsystem::Guts allocates its event ids with
// createScheduledEvent() while realizing Topology, answers calcTimeOfNextScheduledEventImpl /
// calcTimeOfNextScheduledReportImpl with its earliest pending time and the ids due at that time, and is handed
// exactly its own ids by handleEventsImpl / reportEventsImpl ("System then combines the information from [the
// subsystems], and dispatches events to the appropriate subsystems for handling when they occur").
#pragma once
#include "evsys.h"
#include <vector>

namespace schedsub {

struct Item {
    bool reporter = false;            // scheduled report instead of scheduled event
    std::vector<double> times;        // sorted, unique
    int logId = 0;                    // id written to the log (the harness's schedule index)
    evsys::Action act;                // handlers only
};

class ScheduleSubsystem : public SimTK::Subsystem {
    class G : public SimTK::Subsystem::Guts {
    public:
        G(const std::vector<Item>& items, const evsys::Shared* sh) : SimTK::Subsystem::Guts("schedsub::ScheduleSubsystem", "1.0.0"), items(items), sh(sh) {}
        G* cloneImpl() const override { return new G(*this); }
        int realizeSubsystemTopologyImpl(SimTK::State& s) const override {
            ids.resize(items.size());
            for (size_t i = 0; i < items.size(); ++i) createScheduledEvent(s, ids[i]);
            return 0;
        }
        void next(const SimTK::State& s, bool reporters, SimTK::Real& tNext, SimTK::Array_<SimTK::EventId>& out, bool includeCurrentTime) const {
            double best = SimTK::Infinity;
            for (auto& it : items) if (it.reporter == reporters) best = std::min(best, evsys::nextOf(it.times, s.getTime(), includeCurrentTime));
            if (best == SimTK::Infinity) return;      // nothing pending: leave tNext at Infinity, no ids
            tNext = best;
            for (size_t i = 0; i < items.size(); ++i) if (items[i].reporter == reporters && evsys::nextOf(items[i].times, s.getTime(), includeCurrentTime) == best) out.push_back(ids[i]);
        }
        void calcTimeOfNextScheduledEventImpl(const SimTK::State& s, SimTK::Real& tNextEvent, SimTK::Array_<SimTK::EventId>& eventIds, bool includeCurrentTime) const override { next(s, false, tNextEvent, eventIds, includeCurrentTime); }
        void calcTimeOfNextScheduledReportImpl(const SimTK::State& s, SimTK::Real& tNextEvent, SimTK::Array_<SimTK::EventId>& eventIds, bool includeCurrentTime) const override { next(s, true, tNextEvent, eventIds, includeCurrentTime); }
        void handleEventsImpl(SimTK::State& s, SimTK::Event::Cause cause, const SimTK::Array_<SimTK::EventId>& eventIds, const SimTK::HandleEventsOptions&, SimTK::HandleEventsResults& results) const override {
            if (cause != SimTK::Event::Cause::Scheduled) return;
            bool terminate = false;
            for (size_t i = 0; i < items.size(); ++i) { if (items[i].reporter) continue;
                for (int k = 0; k < (int)eventIds.size(); ++k) if (eventIds[k] == ids[i]) { evsys::handle(*sh, evsys::SchedHandler, items[i].logId, items[i].act, s, terminate); break; } }
            results.setAnyChangeMade(true);
            results.setExitStatus(terminate ? SimTK::HandleEventsResults::ShouldTerminate : SimTK::HandleEventsResults::Succeeded);
        }
        void reportEventsImpl(const SimTK::State& s, SimTK::Event::Cause cause, const SimTK::Array_<SimTK::EventId>& eventIds) const override {
            if (cause != SimTK::Event::Cause::Scheduled) return;
            for (size_t i = 0; i < items.size(); ++i) { if (!items[i].reporter) continue;
                for (int k = 0; k < (int)eventIds.size(); ++k) if (eventIds[k] == ids[i]) { evsys::report(*sh, evsys::SchedReporter, items[i].logId, s); break; } }
        }
        const std::vector<Item> items; const evsys::Shared* sh;
        mutable std::vector<SimTK::EventId> ids;      // allocated in realizeTopology (one System, one realization per simulation)
    };
public:
    ScheduleSubsystem(SimTK::System& sys, const std::vector<Item>& items, const evsys::Shared* sh) { adoptSubsystemGuts(new G(items, sh)); sys.adoptSubsystem(*this); }
};

} // namespace schedsub
