// refmob.h -- documented mobilizer formulas X_FM(q), V_FM(q,u) (DESIGN.md 3.2).
//
// Independent reference for property C05 (and used by C06): for every built-in
// mobilizer type the cross-mobilizer transform X_FM(q) and the cross-mobilizer
// velocity V_FM(q,u) (angular velocity of M in F and velocity of Mo in F, both
// expressed in F) are written ONLY from the public class documentation in
// /repo/Simbody/include/simbody/internal/MobilizedBody_<Type>.h -- the sentence
// relied upon is quoted next to each formula.  Nothing here calls a SimTK::Rotation
// member function: elementary rotations and the quaternion matrix are spelled out.
//
// Reversed mobilizers: MobilizedBody.h, enum Direction: "the mobilizer coordinates
// and speeds will be defined as though the tree had been built in the opposite
// direction. It does not actually affect which body is the inboard one ... it just
// affects the definitions of the generalized coordinates q and speeds u".  So for a
// reversed mobilizer the documented forward formula describes the motion of F (the
// frame on the parent) in M (the frame on the child): X_MF = Xfwd(q), V_MF_M =
// Vfwd(q,u), and the reported X_FM (getMobilizerTransform: "the body's inboard
// mobilizer frame M measured and expressed in the parent body's corresponding
// outboard frame F") is the inverse of the forward formula at the same q.
//
// Where a class comment does not state the meaning of u explicitly (BendStretch,
// Planar, Screw, SphericalCoords) u = qdot is assumed (all other non-quaternion
// mobilizers say "qdot=u"); this assumption is listed in notes/C05.md.
#pragma once
#include "Simbody.h"
#include "mbgen.h"
#include <cmath>

namespace refmob {
using SimTK::Mat33; using SimTK::Vec3; using SimTK::Vec4; using SimTK::Real; using SimTK::SpatialVec; using SimTK::Transform;

struct Xf { Mat33 R; Vec3 p; Xf() : R(1), p(0) {} Xf(const Mat33& r, const Vec3& pp) : R(r), p(pp) {} };
inline Xf compose(const Xf& a, const Xf& b) { return Xf(a.R * b.R, a.p + a.R * b.p); }
inline Xf inverse(const Xf& a) { Mat33 Rt = ~a.R; return Xf(Rt, -(Rt * a.p)); }
inline Xf fromTransform(const Transform& X) { return Xf(X.R().asMat33(), X.p()); }

inline Mat33 Rx(Real a) { Real c = std::cos(a), s = std::sin(a); return Mat33(1, 0, 0,  0, c, -s,  0, s, c); }
inline Mat33 Ry(Real a) { Real c = std::cos(a), s = std::sin(a); return Mat33(c, 0, s,  0, 1, 0,  -s, 0, c); }
inline Mat33 Rz(Real a) { Real c = std::cos(a), s = std::sin(a); return Mat33(c, -s, 0,  s, c, 0,  0, 0, 1); }
// Rotation matrix of the (normalised) quaternion (w,x,y,z) = (cos(t/2), sin(t/2) axis)  [Quaternion.h]
inline Mat33 Rquat(const Vec4& qin) {
    Real n = std::sqrt(qin[0] * qin[0] + qin[1] * qin[1] + qin[2] * qin[2] + qin[3] * qin[3]);
    Real w = qin[0] / n, x = qin[1] / n, y = qin[2] / n, z = qin[3] / n;
    return Mat33(1 - 2 * (y * y + z * z), 2 * (x * y - w * z),     2 * (x * z + w * y),
                 2 * (x * y + w * z),     1 - 2 * (x * x + z * z), 2 * (y * z - w * x),
                 2 * (x * z - w * y),     2 * (y * z + w * x),     1 - 2 * (x * x + y * y));
}
// body-fixed x-y-z: "q0 is a rotation about the x axis, then q1 is a rotation about the now-rotated y axis,
// and then q2 is a rotation about the now twice-rotated z axis" (Gimbal)  =>  R = Rx(q0) Ry(q1) Rz(q2)
inline Mat33 RbodyXYZ(Real a, Real b, Real c) { return Rx(a) * Ry(b) * Rz(c); }
// angular velocity (in F) of R = Rx(a)Ry(b)Rz(c) for angle rates (ad,bd,cd): each rate acts about its current axis
inline Vec3 wBodyXYZ(Real a, Real b, Real ad, Real bd, Real cd) {
    Mat33 A = Rx(a), AB = A * Ry(b);
    return ad * Vec3(1, 0, 0) + bd * (A * Vec3(0, 1, 0)) + cd * (AB * Vec3(0, 0, 1));
}

// Does the public documentation define X_FM(q) completely?  (Ellipsoid: only "along the surface of an ellipsoid".)
inline bool hasFormula(int type) { return type != mbgen::Ellipsoid; }

// ---- forward ("as defined") transform of the moving frame in the fixed frame
inline Xf Xforward(const mbgen::BodySpec& b, bool euler, const double* q) {
    using namespace mbgen;
    auto rot3 = [&]() { return euler ? RbodyXYZ(q[0], q[1], q[2]) : Rquat(Vec4(q[0], q[1], q[2], q[3])); };
    switch (b.type) {
    // Pin: "one rotational mobility about the common z axis of the F and M frames ... q is the rotation angle in radians"
    case Pin: return Xf(Rz(q[0]), Vec3(0));
    // Slider: "translation along the common x axis ... q is the translation ... of M's origin Mo with respect to F's origin Fo"
    case Slider: return Xf(Mat33(1), Vec3(q[0], 0, 0));
    // Universal: "rotation about the x axis, followed by a rotation about the new y axis"
    case Universal: return Xf(Rx(q[0]) * Ry(q[1]), Vec3(0));
    // Cylinder: "rotation and translation along the common z axis ... rotation angle ... and the translation ..., in that order"
    case Cylinder: return Xf(Rz(q[0]), Vec3(0, 0, q[1]));
    // BendStretch: "first we rotate around z, which moves M's x with respect to F's x. Then we slide along the rotated x axis.
    // The two generalized coordinates are the rotation and the translation, in that order."
    case BendStretch: { Mat33 R = Rz(q[0]); return Xf(R, R * Vec3(q[1], 0, 0)); }
    // Planar: "rotation about the shared z axis of the F and M frame, translation along the F frame's x axis, and
    // translation along its y axis, in that order"
    case Planar: return Xf(Rz(q[0]), Vec3(q[1], q[2], 0));
    // Gimbal: "1-2-3 body-fixed Euler angle sequence ... F and M frame origins will always be coincident"
    case Gimbal: return Xf(RbodyXYZ(q[0], q[1], q[2]), Vec3(0));
    // Bushing: "q={qx,qy,qz,px,py,pz} ... first translating the M frame by a vector p_FM=[px,py,pz] (expressed in F), then
    // reorienting M about its new origin location using the rotation angles ... q[0]=qx is a rotation about the Mx (=Fx)
    // axis, then q[1]=qy ... now-rotated My axis, and then q[2]=qz ... now twice-rotated Mz axis"
    case Bushing: return Xf(RbodyXYZ(q[0], q[1], q[2]), Vec3(q[3], q[4], q[5]));
    // Ball: "unrestricted orientation modeled with a quaternion ... A modeling option allows the joint to use a 1-2-3 Euler
    // sequence (identical to a Gimbal) instead"
    case Ball: return Xf(rot3(), Vec3(0));
    // Free: "Orientation is modeled the same as for the Ball mobilizer ... Translational generalized coordinates are x,y,z
    // translations along the F (inboard) axes"
    case Free: return euler ? Xf(rot3(), Vec3(q[3], q[4], q[5])) : Xf(rot3(), Vec3(q[4], q[5], q[6]));
    // Translation: "q are x,y,z translations of the M (outboard) frame origin Mo along the parent (inboard) F frame axes"
    case Translation: return Xf(Mat33(1), Vec3(q[0], q[1], q[2]));
    // Screw: "coordinated rotation and translation along the common z axis ... q is the rotation angle in radians, the
    // translation is always pitch*q"
    case Screw: return Xf(Rz(q[0]), Vec3(0, 0, b.pitch * q[0]));
    // SphericalCoords: "body fixed 3-2 (z-y) rotation followed by translation along body z or body x ... azimuth = s0*q0 +
    // az0 (about Fz==Mz), zenith = s1*q1 + ze0 (about My), radius = s2*q2 (along Mz or Mx; Mz is default)"
    case SphericalCoords: {
        Real az = (b.negAz ? -1 : 1) * q[0] + b.az0, ze = (b.negZe ? -1 : 1) * q[1] + b.ze0, rad = (b.negRad ? -1 : 1) * q[2];
        Mat33 R = Rz(az) * Ry(ze); Vec3 axis = b.radAxis == 0 ? Vec3(1, 0, 0) : Vec3(0, 0, 1);
        return Xf(R, R * (rad * axis)); }
    // CantileverFreeBeam: "The generalized coordinates q are the same as for a Gimbal mobilizer, that is, an X-Y-Z body-fixed
    // Euler sequence ... p0 = 2/3 q1 L, p1 = -2/3 q0 L, p2 = L - 4/15 (q0^2 + q1^2) L" (p expressed in F)
    case CantileverFreeBeam: { Real L = b.beamLen;
        return Xf(RbodyXYZ(q[0], q[1], q[2]), Vec3(2.0 / 3 * q[1] * L, -2.0 / 3 * q[0] * L, L - 4.0 / 15 * (q[0] * q[0] + q[1] * q[1]) * L)); }
    // LineOrientation: "The generalized coordinates are the same as for the general Ball (Spherical) mobilizer"
    case LineOrientation: return Xf(rot3(), Vec3(0));
    // FreeLine: "rotational generalized coordinates are the same as for the LineOrientation mobilizer. The translational
    // coordinates are the same as in a Free mobilizer, or a Cartesian (Translation) mobilizer"
    case FreeLine: return euler ? Xf(rot3(), Vec3(q[3], q[4], q[5])) : Xf(rot3(), Vec3(q[4], q[5], q[6]));
    // Ellipsoid: "The generalized coordinates q are the same as for a Ball (Orientation) mobilizer"; the translation is only
    // promised to be "along the surface of an ellipsoid fixed to the parent (inboard) body" -- rotation only here (p left 0,
    // callers must use ellipsoidSurfaceResidual for the translation).
    case Ellipsoid: return Xf(rot3(), Vec3(0));
    // Weld: "weld together the M frame of a body to the F frame on its parent"
    default: return Xf();
    }
}

// ---- forward velocity of the moving frame in the fixed frame, expressed in the fixed frame: (w, v of the origin)
inline SpatialVec Vforward(const mbgen::BodySpec& b, bool euler, const double* q, const double* u) {
    using namespace mbgen;
    const Vec3 x(1, 0, 0), z(0, 0, 1);
    switch (b.type) {
    // Pin: "the generalized speed u is the rotation rate in radians/time unit, with qdot=u"
    case Pin: return SpatialVec(u[0] * z, Vec3(0));
    // Slider: "the generalized speed u is the translation rate ..., with qdot=u"
    case Slider: return SpatialVec(Vec3(0), u[0] * x);
    // Universal: "The two generalized speeds u are the time derivatives of these angles so qdot=u"
    case Universal: return SpatialVec(wBodyXYZ(q[0], q[1], u[0], u[1], 0), Vec3(0));
    // Cylinder: "The two generalized speeds u are the time derivatives of the generalized coordinates so qdot=u"
    case Cylinder: return SpatialVec(u[0] * z, u[1] * z);
    // BendStretch (u=qdot assumed): p = Rz(q0)(q1,0,0)  =>  v = q0dot z x p + Rz(q0)(q1dot,0,0)
    case BendStretch: { Mat33 R = Rz(q[0]); Vec3 p = R * Vec3(q[1], 0, 0); return SpatialVec(u[0] * z, (u[0] * z) % p + R * Vec3(u[1], 0, 0)); }
    // Planar (u=qdot assumed)
    case Planar: return SpatialVec(u[0] * z, Vec3(u[1], u[2], 0));
    // Gimbal: "The generalized speeds u for the Gimbal mobilizer are the time derivatives of the generalized coordinates"
    case Gimbal: return SpatialVec(wBodyXYZ(q[0], q[1], u[0], u[1], u[2]), Vec3(0));
    // Bushing: "u=qdot={qxdot,qydot,qzdot,vx,vy,vz} ... v_FM=[vx,vy,vz]=d/dt p_FM is the velocity of Mo measured and expressed in frame F"
    case Bushing: return SpatialVec(wBodyXYZ(q[0], q[1], u[0], u[1], u[2]), Vec3(u[3], u[4], u[5]));
    // Ball: "The three generalized speeds u for this mobilizer are always the three measure numbers of the angular velocity
    // vector w_FM ... expressed in the F frame. That is unchanged by setting the "use Euler angles" modeling option"
    case Ball: return SpatialVec(Vec3(u[0], u[1], u[2]), Vec3(0));
    // Free: "The first three are always ... w_FM ... expressed in the F frame. The second three are the measure numbers of
    // v_FM, the relative linear velocity of the M frame's origin Mo in the F frame, expressed in the F frame"
    case Free: return SpatialVec(Vec3(u[0], u[1], u[2]), Vec3(u[3], u[4], u[5]));
    // Translation: "The generalized speeds u are the relative velocity v_FM of M's origin in F, so qdot=u"
    case Translation: return SpatialVec(Vec3(0), Vec3(u[0], u[1], u[2]));
    // Screw (u=qdot assumed): translation = pitch*q
    case Screw: return SpatialVec(u[0] * z, (b.pitch * u[0]) * z);
    // SphericalCoords (u=qdot assumed)
    case SphericalCoords: {
        Real s0 = b.negAz ? -1 : 1, s1 = b.negZe ? -1 : 1, s2 = b.negRad ? -1 : 1;
        Real az = s0 * q[0] + b.az0, ze = s1 * q[1] + b.ze0, rad = s2 * q[2];
        Mat33 A = Rz(az), R = A * Ry(ze); Vec3 axis = b.radAxis == 0 ? Vec3(1, 0, 0) : Vec3(0, 0, 1);
        Vec3 w = (s0 * u[0]) * z + (s1 * u[1]) * (A * Vec3(0, 1, 0)), p = R * (rad * axis);
        return SpatialVec(w, w % p + R * ((s2 * u[2]) * axis)); }
    // CantileverFreeBeam: "The three generalized speeds u for this mobilizer are also the same as for a Gimbal mobilizer: the
    // time derivatives of the generalized coordinates"
    case CantileverFreeBeam: { Real L = b.beamLen;
        return SpatialVec(wBodyXYZ(q[0], q[1], u[0], u[1], u[2]),
                          Vec3(2.0 / 3 * u[1] * L, -2.0 / 3 * u[0] * L, -8.0 / 15 * (q[0] * u[0] + q[1] * u[1]) * L)); }
    // LineOrientation: "only two generalized speeds. These are the x,y components of the angular velocity of frame M in F,
    // but expressed in M" and "incapable of representing non-zero angular velocity of M in F about Mz"
    case LineOrientation: { Mat33 R = Xforward(b, euler, q).R; return SpatialVec(R * Vec3(u[0], u[1], 0), Vec3(0)); }
    // FreeLine: rotational speeds as LineOrientation; translational part "the same as in a Free mobilizer" (v_FM in F)
    case FreeLine: { Mat33 R = Xforward(b, euler, q).R; return SpatialVec(R * Vec3(u[0], u[1], 0), Vec3(u[2], u[3], u[4])); }
    // Ellipsoid: "The three generalized speeds u for this mobilizer are also the same as for a Ball mobilizer ... w_FM ...
    // expressed in the F frame"; linear part not defined by the documentation (0 here; callers use the surface predicate)
    case Ellipsoid: return SpatialVec(Vec3(u[0], u[1], u[2]), Vec3(0));
    default: return SpatialVec(Vec3(0), Vec3(0));
    }
}

// velocity of frame A in frame B (in B) given X_AB=X and the velocity V of B in A (in A): the inverse relative motion
inline SpatialVec reverseVelocity(const Xf& X /*moving in fixed*/, const SpatialVec& V) {
    Mat33 Rt = ~X.R;                          // R_(moving<-fixed)
    Vec3 w = -(Rt * V[0]);                    // w of fixed in moving, expressed in moving
    Vec3 v = Rt * (V[0] % X.p - V[1]);        // d/dt( -R' p ) with Rdot = w x R
    return SpatialVec(w, v);
}

// ---- what the library must report for mobilizer b at coordinates q, speeds u
inline Xf X_FM(const mbgen::BodySpec& b, bool euler, const double* q) {
    Xf X = Xforward(b, euler, q); return b.reversed ? inverse(X) : X;
}
inline SpatialVec V_FM(const mbgen::BodySpec& b, bool euler, const double* q, const double* u) {
    SpatialVec V = Vforward(b, euler, q, u);
    return b.reversed ? reverseVelocity(Xforward(b, euler, q), V) : V;
}

// Ellipsoid header-level predicate.  "coordinated rotation and translation along the surface of an ellipsoid fixed to the
// parent (inboard) body"; constructor: "The ellipsoid is placed on the mobilizer's inboard frame F, with semi-axis
// dimensions given in radii along F's x,y,z respectively".  Argument: the AS-DEFINED transform (for a reversed mobilizer
// the inverse of the reported X_FM, because then the ellipsoid's frame is the defining "fixed" frame).
// Returns (x/a)^2+(y/b)^2+(z/c)^2 - 1.
inline Real ellipsoidSurfaceResidual(const Vec3& radii, const Vec3& p) {
    Real s = 0; for (int i = 0; i < 3; ++i) s += (p[i] / radii[i]) * (p[i] / radii[i]);
    return s - 1;
}
// tangency of a linear velocity to the ellipsoid at p: grad . v (normalised by |grad| |v|)
inline Real ellipsoidNormalVelocity(const Vec3& radii, const Vec3& p, const Vec3& v) {
    Vec3 g(p[0] / (radii[0] * radii[0]), p[1] / (radii[1] * radii[1]), p[2] / (radii[2] * radii[2]));
    return (~g * v) / g.norm();
}

// NaN-propagating maximum (a NaN anywhere makes the difference NaN, which no tolerance test accepts)
inline Real nmax(Real a, Real b) { return (a != a || b != b) ? SimTK::NaN : (a > b ? a : b); }
inline Real maxAbsDiff(const Mat33& A, const Mat33& B) { Real m = 0; for (int i = 0; i < 3; ++i) for (int j = 0; j < 3; ++j) m = nmax(m, std::abs(A(i, j) - B(i, j))); return m; }
inline Real diff(const Xf& a, const Xf& b) { return nmax(maxAbsDiff(a.R, b.R), (a.p - b.p).norm()); }
inline Real diff(const SpatialVec& a, const SpatialVec& b) { return nmax((a[0] - b[0]).norm(), (a[1] - b[1]).norm()); }

// skew part -> vector
inline Vec3 vee(const Mat33& W) { return Vec3(0.5 * (W(2, 1) - W(1, 2)), 0.5 * (W(0, 2) - W(2, 0)), 0.5 * (W(1, 0) - W(0, 1))); }
// velocity (w,v) in the base frame of a time-dependent Xf by 5-point central differences
template <class F> inline SpatialVec rate5(const F& X, Real h) {
    Xf X0 = X(0.0), Xp = X(h), Xm = X(-h), Xpp = X(2 * h), Xmm = X(-2 * h);
    Mat33 Rd = (8.0 * (Xp.R - Xm.R) - (Xpp.R - Xmm.R)) / (12 * h);
    Vec3 pd = (8.0 * (Xp.p - Xm.p) - (Xpp.p - Xmm.p)) / (12 * h);
    return SpatialVec(vee(Rd * ~X0.R), pd);
}
} // namespace refmob
