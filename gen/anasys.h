// anasys.h -- analytic ODE test systems with closed-form solutions (DESIGN.md section 3.5).
//
// Owner: C19/C20 (integrators). Reused by C22 (events) and C23 (measures). Self-contained:
// needs only SimTKcommon.h (System::Guts, State, EventHandler). No global state, no randomness:
// a system is a pure function of its `Spec`.
//
// What is here
//   1. anasys::Spec        plain-data description of an ODE  y' = f(y)  made of independent parts
//        * z-part:   z' = A z,  A = S B S^T,  B block diagonal (1x1 real eigenvalue `a`, or 2x2
//                    [a -w; w a] = eigenvalue pair a +- i w), S = product of Givens rotations
//                    (`mix`; empty => S = I, i.e. A is block diagonal).   nz = sum of block sizes.
//        * harmonic oscillators in (q,u):  q' = u, u' = -omega^2 q.
//        * pendulums in (q,u):  q' = u, u' = -omega0^2 sin q  (librating, amplitude amp in (0,pi)),
//                    closed form by Jacobi elliptic functions (AGM / descending Landen, A&S 16.4):
//                    q = 2 asin(k sn(x|k^2)), u = 2 k omega0 cn(x|k^2), k = sin(amp/2),
//                    x = omega0 (t - t0) + phase.
//      State layout (the library's y ordering): y = [ q(oscs..., pends...), u(same order), z ].
//   2. anasys::Solution    the closed-form solution y(t) of a Spec; `restart(t,y)` re-anchors the
//                    oscillator and z parts after a discontinuous state change (event handler).
//                    (Pendulum components cannot be re-anchored; handlers must leave them alone.)
//   3. anasys::AnaSystem   a SimTK::System with a custom System::Guts implementing exactly that ODE
//                    (pattern: /repo/SimTKmath/tests/PendulumSystem.h). q,u,z are allocated in the
//                    DefaultSystemSubsystem; the default state carries the Spec's initial time and
//                    values. qdot = u (N = identity), no constraints, no prescribed motion.
//                    `system.counters()` counts derivative evaluations (per system, not static).
//   4. Witnesses and handlers (for C22/C23; C19 uses time-only witnesses for the event-window clause)
//        * anasys::Witness      w(t) = t - c   |  sin(omega (t - c))  |  y_i(t) - c   (y_i analytic)
//                    `value(t, y)`, and for the time-only kinds the EXACT list of sign changes in an
//                    interval (`crossings`), independent of any integration error.
//        * anasys::WitnessHandler  TriggeredEventHandler evaluating a Witness (time-only kinds use
//                    Stage::Time; state kinds the stage of the variable), logging every call into an
//                    EventLog and optionally performing an Action (scale z, kick oscillator, terminate).
//        * anasys::TimesHandler    ScheduledEventHandler firing at a given sorted list of times, logging
//                    and performing an Action.
//      Handlers are owned by the System once passed to addEventHandler(); the EventLog is owned by
//      the caller and must outlive the System.
//
// Accuracy of the closed forms: block exponentials and oscillators to a few ulp * |lambda| t;
// the pendulum form is checked against a long-double RK4 reference by `anasys::selfCheckPendulum`
// (used as a directed case by C20), agreement ~1e-13.
#pragma once
#include "SimTKcommon.h"
#include "SimTKcommon/internal/SystemGuts.h"
#include <cmath>
#include <vector>
#include <string>
#include <sstream>
#include <algorithm>

namespace anasys {

// ------------------------------------------------------------------ pure data
struct Block  { bool pair; double a, w; };          // pair=false: z' = a z ; pair=true: [a -w; w a]
struct Givens { int i, j; double th; };             // rotation in the (i,j) plane of z space, i != j
struct Osc    { double omega; };                    // q'' = -omega^2 q
struct Pend   { double omega0, amp, phase; };       // q'' = -omega0^2 sin q ; see header comment

struct Spec {
    double t0 = 0;
    std::vector<Block>  blocks;
    std::vector<Givens> mix;
    std::vector<Osc>    oscs;
    std::vector<Pend>   pends;
    std::vector<double> z0;        // size nz(): initial z (in the mixed coordinates the State holds)
    std::vector<double> q0, u0;    // size oscs.size(): oscillator initial values (pendulums: amp/phase)
    int nz() const { int n = 0; for (auto& b : blocks) n += b.pair ? 2 : 1; return n; }
    int nq() const { return (int)(oscs.size() + pends.size()); }
    int ny() const { return 2 * nq() + nz(); }
    // largest |eigenvalue| / frequency of the system (stiffness / time-scale indicator)
    double maxRate() const {
        double r = 0;
        for (auto& b : blocks) r = std::max(r, std::hypot(b.a, b.pair ? b.w : 0.0));
        for (auto& o : oscs) r = std::max(r, std::abs(o.omega));
        for (auto& p : pends) r = std::max(r, std::abs(p.omega0));
        return r;
    }
    // largest growth rate (max real part of an eigenvalue; <= 0 for non-growing systems)
    double maxGrowth() const { double g = -1e300; for (auto& b : blocks) g = std::max(g, b.a); return blocks.empty() ? 0 : g; }
    std::string describe() const {
        std::ostringstream o; o.precision(17);
        o << "t0=" << t0 << " blocks[";
        for (auto& b : blocks) { if (b.pair) o << "(" << b.a << "+-" << b.w << "i)"; else o << "(" << b.a << ")"; }
        o << "] mix[";
        for (auto& g : mix) o << "(" << g.i << "," << g.j << "," << g.th << ")";
        o << "] z0[";
        for (auto v : z0) o << v << " ";
        o << "] oscs[";
        for (size_t i = 0; i < oscs.size(); ++i) o << "(w=" << oscs[i].omega << ",q0=" << q0[i] << ",u0=" << u0[i] << ")";
        o << "] pends[";
        for (auto& p : pends) o << "(w0=" << p.omega0 << ",amp=" << p.amp << ",phase=" << p.phase << ")";
        o << "]";
        return o.str();
    }
};

// Jacobi elliptic functions sn, cn, dn of argument u and parameter m = k^2, 0 <= m < 1
// (Abramowitz & Stegun 16.4: arithmetic-geometric mean + descending Landen recurrence).
inline void jacobi(double u, double m, double& sn, double& cn, double& dn) {
    if (m <= 0) { sn = std::sin(u); cn = std::cos(u); dn = 1; return; }
    double a[32], c[32]; a[0] = 1; double b = std::sqrt(1 - m); c[0] = std::sqrt(m);
    int n = 0;
    while (std::abs(c[n]) > 1e-17 && n < 30) {
        double an = 0.5 * (a[n] + b), bn = std::sqrt(a[n] * b), cn_ = 0.5 * (a[n] - b);
        ++n; a[n] = an; c[n] = cn_; b = bn;
    }
    double phi = std::ldexp(a[n] * u, n);
    for (int k = n; k >= 1; --k) phi = 0.5 * (phi + std::asin(c[k] / a[k] * std::sin(phi)));
    sn = std::sin(phi); cn = std::cos(phi); dn = std::sqrt(1 - m * sn * sn);
}

// Dense nz x nz matrices S and A = S B S^T of a Spec (row-major).
inline void denseMatrices(const Spec& s, std::vector<double>& S, std::vector<double>& A) {
    const int n = s.nz();
    S.assign(n * n, 0.0); for (int i = 0; i < n; ++i) S[i * n + i] = 1;
    for (auto& g : s.mix) {                       // S <- S * G(i,j,th)
        if (g.i == g.j || g.i < 0 || g.j < 0 || g.i >= n || g.j >= n) continue;
        double cs = std::cos(g.th), sn = std::sin(g.th);
        for (int r = 0; r < n; ++r) {
            double x = S[r * n + g.i], y = S[r * n + g.j];
            S[r * n + g.i] = cs * x + sn * y; S[r * n + g.j] = -sn * x + cs * y;
        }
    }
    std::vector<double> B(n * n, 0.0);
    int k = 0;
    for (auto& b : s.blocks) {
        if (b.pair) { B[k * n + k] = b.a; B[k * n + k + 1] = -b.w; B[(k + 1) * n + k] = b.w; B[(k + 1) * n + k + 1] = b.a; k += 2; }
        else { B[k * n + k] = b.a; k += 1; }
    }
    std::vector<double> SB(n * n, 0.0); A.assign(n * n, 0.0);
    for (int i = 0; i < n; ++i) for (int j = 0; j < n; ++j) { double v = 0; for (int l = 0; l < n; ++l) v += S[i * n + l] * B[l * n + j]; SB[i * n + j] = v; }
    for (int i = 0; i < n; ++i) for (int j = 0; j < n; ++j) { double v = 0; for (int l = 0; l < n; ++l) v += SB[i * n + l] * S[j * n + l]; A[i * n + j] = v; }
}

// ------------------------------------------------------------------ closed-form solution
class Solution {
public:
    Solution() {}
    explicit Solution(const Spec& s) : sp(s), tRef(s.t0), zRef(s.z0), qRef(s.q0), uRef(s.u0) {
        std::vector<double> A; denseMatrices(sp, S, A);
        zRef.resize(sp.nz(), 0.0); qRef.resize(sp.oscs.size(), 0.0); uRef.resize(sp.oscs.size(), 0.0);
    }
    const Spec& spec() const { return sp; }
    // y(t) = [q, u, z] at time t (any t; the anchor is the initial condition or the last restart)
    std::vector<double> eval(double t) const {
        const int nq = sp.nq(), nz = sp.nz(), no = (int)sp.oscs.size();
        std::vector<double> y(2 * nq + nz, 0.0);
        const double tau = t - tRef;
        for (int i = 0; i < no; ++i) {
            double w = sp.oscs[i].omega, cs = std::cos(w * tau), sn = std::sin(w * tau);
            if (w != 0) { y[i] = qRef[i] * cs + uRef[i] / w * sn; y[nq + i] = -qRef[i] * w * sn + uRef[i] * cs; }
            else        { y[i] = qRef[i] + uRef[i] * tau;          y[nq + i] = uRef[i]; }
        }
        for (int i = 0; i < (int)sp.pends.size(); ++i) {
            const Pend& p = sp.pends[i]; double k = std::sin(0.5 * p.amp), sn, cn, dn;
            jacobi(p.omega0 * (t - sp.t0) + p.phase, k * k, sn, cn, dn);
            y[no + i] = 2 * std::asin(k * sn); y[nq + no + i] = 2 * k * p.omega0 * cn;
        }
        if (nz) {
            std::vector<double> w(nz, 0.0), e(nz, 0.0);
            for (int i = 0; i < nz; ++i) { double v = 0; for (int l = 0; l < nz; ++l) v += S[l * nz + i] * zRef[l]; w[i] = v; }   // w = S^T zRef
            int k = 0;
            for (auto& b : sp.blocks) {
                double g = std::exp(b.a * tau);
                if (b.pair) { double cs = std::cos(b.w * tau), sn = std::sin(b.w * tau); e[k] = g * (cs * w[k] - sn * w[k + 1]); e[k + 1] = g * (sn * w[k] + cs * w[k + 1]); k += 2; }
                else { e[k] = g * w[k]; k += 1; }
            }
            for (int i = 0; i < nz; ++i) { double v = 0; for (int l = 0; l < nz; ++l) v += S[i * nz + l] * e[l]; y[2 * nq + i] = v; }
        }
        return y;
    }
    // Re-anchor at (t, y) after a discontinuous change of oscillator and/or z values.
    void restart(double t, const std::vector<double>& y) {
        const int nq = sp.nq(), nz = sp.nz(), no = (int)sp.oscs.size();
        tRef = t;
        for (int i = 0; i < no; ++i) { qRef[i] = y[i]; uRef[i] = y[nq + i]; }
        for (int i = 0; i < nz; ++i) zRef[i] = y[2 * nq + i];
    }
    // A bound on max_i |y_i| over all times >= anchor for non-growing systems (used for scaling errors)
    double scale(double tEnd) const {
        double s = 0, g = std::max(0.0, sp.maxGrowth()) * std::max(0.0, tEnd - tRef), zn = 0;
        for (auto v : zRef) zn += v * v;
        s = std::max(s, std::sqrt(zn) * std::exp(g));
        for (size_t i = 0; i < sp.oscs.size(); ++i) { double w = sp.oscs[i].omega, A = std::hypot(qRef[i], w != 0 ? uRef[i] / w : 0.0); s = std::max(s, A * std::max(1.0, std::abs(w))); }
        for (auto& p : sp.pends) s = std::max(s, std::max(p.amp, 2 * std::sin(0.5 * p.amp) * p.omega0));
        return s;
    }
private:
    Spec sp; double tRef = 0; std::vector<double> zRef, qRef, uRef, S;
};

// Self-check of the pendulum closed form against a long double RK4 integration of
// q'' = -omega0^2 sin q with `n` steps over [t0, t0+T]; returns max abs deviation of (q,u).
inline double selfCheckPendulum(const Pend& p, double T, int n) {
    Spec s; s.pends.push_back(p); Solution sol(s);
    std::vector<double> y0 = sol.eval(0.0);
    long double q = y0[0], u = y0[1], h = (long double)T / n, w2 = (long double)p.omega0 * p.omega0, worst = 0;
    auto f = [&](long double q_) { return -w2 * std::sin(q_); };
    for (int i = 0; i < n; ++i) {
        long double k1q = u, k1u = f(q), k2q = u + 0.5L * h * k1u, k2u = f(q + 0.5L * h * k1q), k3q = u + 0.5L * h * k2u, k3u = f(q + 0.5L * h * k2q), k4q = u + h * k3u, k4u = f(q + h * k3q);
        q += h / 6 * (k1q + 2 * k2q + 2 * k3q + k4q); u += h / 6 * (k1u + 2 * k2u + 2 * k3u + k4u);
        if ((i + 1) % std::max(1, n / 50) == 0 || i + 1 == n) {
            std::vector<double> y = sol.eval((double)((i + 1) * h));
            worst = std::max(worst, std::max(std::abs(q - (long double)y[0]), std::abs(u - (long double)y[1])));
        }
    }
    return (double)worst;
}

// ------------------------------------------------------------------ the System
struct Counters { long realizeAcceleration = 0, realizeVelocity = 0; };

class AnaSystem;
class AnaSystemGuts : public SimTK::System::Guts {
    friend class AnaSystem;
    Spec spec; std::vector<double> A;            // dense nz x nz
    SimTK::SubsystemIndex subsys;
    mutable SimTK::QIndex q0; mutable SimTK::UIndex u0; mutable SimTK::ZIndex z0;
    mutable Counters cnt;
public:
    explicit AnaSystemGuts(const Spec& s) : spec(s) { std::vector<double> S; denseMatrices(spec, S, A); }
    AnaSystemGuts* cloneImpl() const override { return new AnaSystemGuts(*this); }

    int realizeTopologyImpl(SimTK::State& s) const override {
        const int nq = spec.nq(), nz = spec.nz(), no = (int)spec.oscs.size();
        Solution sol(spec); std::vector<double> y = sol.eval(spec.t0);
        if (nq) {
            SimTK::Vector q(nq), u(nq);
            for (int i = 0; i < nq; ++i) { q[i] = y[i]; u[i] = y[nq + i]; }
            for (int i = 0; i < no; ++i) { q[i] = spec.q0[i]; u[i] = spec.u0[i]; }     // bitwise the given values
            q0 = s.allocateQ(subsys, q); u0 = s.allocateU(subsys, u);
        }
        if (nz) { SimTK::Vector z(nz); for (int i = 0; i < nz; ++i) z[i] = spec.z0[i]; z0 = s.allocateZ(subsys, z); }
        return 0;
    }
    int realizeVelocityImpl(const SimTK::State& s) const override {
        if (spec.nq()) s.updQDot(subsys) = s.getU(subsys);
        cnt.realizeVelocity++;
        return 0;
    }
    int realizeAccelerationImpl(const SimTK::State& s) const override {
        const int nq = spec.nq(), nz = spec.nz(), no = (int)spec.oscs.size();
        if (nq) {
            const SimTK::Vector& q = s.getQ(subsys); SimTK::Vector& udot = s.updUDot(subsys);
            for (int i = 0; i < no; ++i) udot[i] = -spec.oscs[i].omega * spec.oscs[i].omega * q[i];
            for (int i = no; i < nq; ++i) { double w0 = spec.pends[i - no].omega0; udot[i] = -w0 * w0 * std::sin(q[i]); }
            s.updQDotDot(subsys) = udot;
        }
        if (nz) {
            const SimTK::Vector& z = s.getZ(subsys); SimTK::Vector& zdot = s.updZDot(subsys);
            for (int i = 0; i < nz; ++i) { double v = 0; for (int j = 0; j < nz; ++j) v += A[i * nz + j] * z[j]; zdot[i] = v; }
        }
        cnt.realizeAcceleration++;
        return 0;
    }
    // qdot == u
    void multiplyByNImpl(const SimTK::State&, const SimTK::Vector& u, SimTK::Vector& dq) const override { dq = u; }
    void multiplyByNTransposeImpl(const SimTK::State&, const SimTK::Vector& fq, SimTK::Vector& fu) const override { fu = fq; }
    void multiplyByNPInvImpl(const SimTK::State&, const SimTK::Vector& dq, SimTK::Vector& u) const override { u = dq; }
    void multiplyByNPInvTransposeImpl(const SimTK::State&, const SimTK::Vector& fu, SimTK::Vector& fq) const override { fq = fu; }
};

class AnaSystem : public SimTK::System {
public:
    explicit AnaSystem(const Spec& s) : SimTK::System() {
        adoptSystemGuts(new AnaSystemGuts(s));
        SimTK::DefaultSystemSubsystem defsub(*this);
        updGuts().subsys = defsub.getMySubsystemIndex();
        setHasTimeAdvancedEvents(false);
    }
    const AnaSystemGuts& getGuts() const { return dynamic_cast<const AnaSystemGuts&>(getSystemGuts()); }
    AnaSystemGuts& updGuts() { return dynamic_cast<AnaSystemGuts&>(updSystemGuts()); }
    const Spec& spec() const { return getGuts().spec; }
    const Counters& counters() const { return getGuts().cnt; }
    SimTK::SubsystemIndex subsystem() const { return getGuts().subsys; }
    // realizeTopology() and return a copy of the default state at the Spec's initial time
    SimTK::State initialState() { SimTK::State s = realizeTopology(); s.updTime() = spec().t0; return s; }
    // y of a State in the Solution's layout [q,u,z] (the State's own y ordering)
    static std::vector<double> yOf(const SimTK::State& s) {
        const SimTK::Vector& y = s.getY(); std::vector<double> v(y.size());
        for (int i = 0; i < y.size(); ++i) v[i] = y[i];
        return v;
    }
};

// ------------------------------------------------------------------ witnesses
struct Witness {
    enum Kind { TimeLinear = 0, TimeSine = 1, StateComp = 2 };
    int kind = TimeLinear;
    double c = 0, omega = 1;      // TimeLinear: t - c ; TimeSine: sin(omega (t - c)) ; StateComp: y[comp] - c
    int comp = 0;
    bool rising = true, falling = true;    // monitored directions
    double window = 0.1;                   // required localization window (fraction of the system time scale)
    bool timeOnly() const { return kind != StateComp; }
    double value(double t, const std::vector<double>* y = nullptr) const {
        switch (kind) {
            case TimeLinear: return t - c;
            case TimeSine:   return std::sin(omega * (t - c));
            default:         return (y && comp < (int)y->size() ? (*y)[comp] : 0.0) - c;
        }
    }
};
struct Crossing { double t; bool rising; };
// Exact zero crossings (sign changes) of a TIME-ONLY witness with tlo < t <= thi, in time order.
inline std::vector<Crossing> crossings(const Witness& w, double tlo, double thi) {
    std::vector<Crossing> out;
    if (w.kind == Witness::TimeLinear) { if (w.c > tlo && w.c <= thi) out.push_back({w.c, true}); }
    else if (w.kind == Witness::TimeSine && w.omega != 0) {
        const double pi = 3.141592653589793238, per = pi / std::abs(w.omega);
        long k0 = (long)std::floor((tlo - w.c) / per) - 1, k1 = (long)std::ceil((thi - w.c) / per) + 1;
        for (long k = k0; k <= k1; ++k) {
            double t = w.c + k * per; if (!(t > tlo && t <= thi)) continue;
            bool up = ((k % 2 + 2) % 2 == 0) == (w.omega > 0);          // d/dt sin(omega (t-c)) = omega cos(k pi)
            out.push_back({t, up});
        }
    }
    return out;
}

// ------------------------------------------------------------------ handlers
struct Action {
    enum Kind { None = 0, ScaleZ = 1, KickOsc = 2, Terminate = 3 };
    int kind = None; double factor = 1; int index = 0;   // ScaleZ: z *= factor ; KickOsc: u[index] += factor
};
struct EventLog {
    struct Rec { int handler; double t; bool triggered; };
    std::vector<Rec> recs;
};
inline void applyAction(const Action& a, SimTK::State& s, bool& shouldTerminate) {
    if (a.kind == Action::ScaleZ && s.getNZ() > 0) s.updZ() *= a.factor;
    else if (a.kind == Action::KickOsc && s.getNU() > 0) s.updU()[a.index % s.getNU()] += a.factor;
    else if (a.kind == Action::Terminate) shouldTerminate = true;
}

class WitnessHandler : public SimTK::TriggeredEventHandler {
public:
    static SimTK::Stage stageFor(const Witness& w, int nq, int nu) {
        if (w.timeOnly()) return SimTK::Stage::Time;
        if (w.comp < nq) return SimTK::Stage::Position;
        if (w.comp < nq + nu) return SimTK::Stage::Velocity;
        return SimTK::Stage::Dynamics;
    }
    WitnessHandler(const Witness& w, int id, EventLog* log, const Action& act, int nq, int nu)
    :   SimTK::TriggeredEventHandler(stageFor(w, nq, nu)), wit(w), id(id), log(log), act(act) {
        getTriggerInfo().setTriggerOnRisingSignTransition(w.rising);
        getTriggerInfo().setTriggerOnFallingSignTransition(w.falling);
        getTriggerInfo().setRequiredLocalizationTimeWindow(w.window);
    }
    SimTK::Real getValue(const SimTK::State& s) const override {
        if (wit.timeOnly()) return wit.value(s.getTime());
        return s.getY()[wit.comp] - wit.c;
    }
    void handleEvent(SimTK::State& s, SimTK::Real, bool& shouldTerminate) const override {
        if (log) log->recs.push_back({id, s.getTime(), true});
        applyAction(act, s, shouldTerminate);
    }
    const Witness wit; const int id;
private:
    EventLog* log; Action act;
};

class TimesHandler : public SimTK::ScheduledEventHandler {
public:
    TimesHandler(const std::vector<double>& times, int id, EventLog* log, const Action& act)
    :   times(times), id(id), log(log), act(act) { std::sort(this->times.begin(), this->times.end()); }
    SimTK::Real getNextEventTime(const SimTK::State& s, bool includeCurrentTime) const override {
        const double t = s.getTime();
        for (double x : times) if (x > t || (includeCurrentTime && x == t)) return x;
        return SimTK::Infinity;
    }
    void handleEvent(SimTK::State& s, SimTK::Real, bool& shouldTerminate) const override {
        if (log) log->recs.push_back({id, s.getTime(), false});
        applyAction(act, s, shouldTerminate);
    }
    std::vector<double> times; const int id;
private:
    EventLog* log; Action act;
};

} // namespace anasys
