// dense.h -- naive dense linear algebra reference in long double (DESIGN.md section 3.6).
// Used by C24/C25 (and available to C44) so that LAPACK / MatrixHelper are never
// their own oracle.  Everything is a plain triple loop over a row-major
// std::vector; nothing here includes or calls SimTK.
//
//   dense::Mat<S>   S = LD (long double) or CL (std::complex<long double>)
//   mul, add, sub, scaled, adj (conjugate transpose), transp, eye
//   normF, normMax, norm1, normInf
//   gaussJordan     inverse / determinant / rank by full pivoting
//   jacobiSVD       one-sided (Hestenes) Jacobi SVD, thin, descending
//   pinvFromSVD     truncated pseudo-inverse
//   Rng             splitmix64 (deterministic bulk numbers derived from tape words)
//   reflect / randomUnitary   products of Householder reflectors
#pragma once
#include <algorithm>
#include <cmath>
#include <complex>
#include <cstdint>
#include <vector>

namespace dense {

typedef long double LD;
typedef std::complex<LD> CL;

inline LD conjS(LD x) { return x; }
inline CL conjS(const CL& x) { return std::conj(x); }
inline LD absS(LD x) { return std::fabs(x); }
inline LD absS(const CL& x) { return std::abs(x); }
inline LD realS(LD x) { return x; }
inline LD realS(const CL& x) { return x.real(); }
inline LD abs2S(LD x) { return x * x; }
inline LD abs2S(const CL& x) { return std::norm(x); }

template <class S> struct Mat {
    int m = 0, n = 0;
    std::vector<S> a;
    Mat() {}
    Mat(int m_, int n_, S v = S(0)) : m(m_), n(n_), a((size_t)m_ * n_, v) {}
    S& operator()(int i, int j) { return a[(size_t)i * n + j]; }
    const S& operator()(int i, int j) const { return a[(size_t)i * n + j]; }
};
typedef Mat<LD> RMat;
typedef Mat<CL> CMat;

template <class S> Mat<S> eye(int n) { Mat<S> I(n, n); for (int i = 0; i < n; ++i) I(i, i) = S(1); return I; }
template <class S> Mat<S> mul(const Mat<S>& A, const Mat<S>& B) {
    Mat<S> C(A.m, B.n);
    for (int i = 0; i < A.m; ++i) for (int k = 0; k < A.n; ++k) { S aik = A(i, k); if (aik == S(0)) continue; for (int j = 0; j < B.n; ++j) C(i, j) += aik * B(k, j); }
    return C;
}
template <class S> Mat<S> add(const Mat<S>& A, const Mat<S>& B) { Mat<S> C = A; for (size_t i = 0; i < C.a.size(); ++i) C.a[i] += B.a[i]; return C; }
template <class S> Mat<S> sub(const Mat<S>& A, const Mat<S>& B) { Mat<S> C = A; for (size_t i = 0; i < C.a.size(); ++i) C.a[i] -= B.a[i]; return C; }
template <class S> Mat<S> scaled(const Mat<S>& A, S s) { Mat<S> C = A; for (auto& x : C.a) x *= s; return C; }
template <class S> Mat<S> adj(const Mat<S>& A) { Mat<S> C(A.n, A.m); for (int i = 0; i < A.m; ++i) for (int j = 0; j < A.n; ++j) C(j, i) = conjS(A(i, j)); return C; }
template <class S> Mat<S> transp(const Mat<S>& A) { Mat<S> C(A.n, A.m); for (int i = 0; i < A.m; ++i) for (int j = 0; j < A.n; ++j) C(j, i) = A(i, j); return C; }
template <class S> LD normF(const Mat<S>& A) { LD s = 0; for (auto& x : A.a) s += abs2S(x); return std::sqrt(s); }
template <class S> LD normMax(const Mat<S>& A) { LD s = 0; for (auto& x : A.a) s = std::max(s, absS(x)); return s; }
template <class S> LD norm1(const Mat<S>& A) { LD b = 0; for (int j = 0; j < A.n; ++j) { LD s = 0; for (int i = 0; i < A.m; ++i) s += absS(A(i, j)); b = std::max(b, s); } return b; }
template <class S> LD normInf(const Mat<S>& A) { LD b = 0; for (int i = 0; i < A.m; ++i) { LD s = 0; for (int j = 0; j < A.n; ++j) s += absS(A(i, j)); b = std::max(b, s); } return b; }
template <class S> bool allFinite(const Mat<S>& A) { for (auto& x : A.a) if (!std::isfinite((double)absS(x))) return false; return true; }

// Gauss-Jordan elimination with full pivoting on a square matrix. Returns the
// numerical rank (pivots with |p| > tol * largest pivot); inv (if rank == n)
// and det are filled.
template <class S> int gaussJordan(const Mat<S>& A, Mat<S>* inv, S* det, LD tol = 0) {
    const int n = A.n; Mat<S> W = A, B = eye<S>(n);
    std::vector<int> colOf(n); for (int i = 0; i < n; ++i) colOf[i] = i;
    S d = S(1); int rank = 0; LD first = 0;
    for (int k = 0; k < n; ++k) {
        int pi = k, pj = k; LD best = -1;
        for (int i = k; i < n; ++i) for (int j = k; j < n; ++j) { LD v = absS(W(i, j)); if (v > best) { best = v; pi = i; pj = j; } }
        if (k == 0) first = best;
        if (!(best > tol * first) || best == 0) { d = S(0); break; }
        if (pi != k) { for (int j = 0; j < n; ++j) { std::swap(W(pi, j), W(k, j)); std::swap(B(pi, j), B(k, j)); } d = -d; }
        if (pj != k) { for (int i = 0; i < n; ++i) std::swap(W(i, pj), W(i, k)); std::swap(colOf[pj], colOf[k]); d = -d; }
        S p = W(k, k); d *= p; ++rank;
        for (int j = 0; j < n; ++j) { W(k, j) /= p; B(k, j) /= p; }
        for (int i = 0; i < n; ++i) if (i != k) { S f = W(i, k); if (f == S(0)) continue; for (int j = 0; j < n; ++j) { W(i, j) -= f * W(k, j); B(i, j) -= f * B(k, j); } }
    }
    if (det) *det = d;
    if (inv && rank == n) { *inv = Mat<S>(n, n); for (int k = 0; k < n; ++k) for (int j = 0; j < n; ++j) (*inv)(colOf[k], j) = B(k, j); }   // undo the column permutation: x = P y
    return rank;
}

// One-sided Jacobi (Hestenes) SVD: A (m x n) = U diag(s) V^H, thin: U m x k, V n x k,
// k = min(m,n), s descending and >= 0.  Columns of U belonging to zero singular
// values are left zero (callers only use the leading rank columns).
template <class S> void jacobiSVD(const Mat<S>& A, Mat<S>& U, std::vector<LD>& s, Mat<S>& V) {
    if (A.m < A.n) { Mat<S> Uh, Vh; jacobiSVD(adj(A), Vh, s, Uh); U = Uh; V = Vh; return; }
    const int m = A.m, n = A.n; Mat<S> G = A, W = eye<S>(n);
    const LD eps = std::numeric_limits<LD>::epsilon();
    for (int sweep = 0; sweep < 60; ++sweep) {
        bool rotated = false;
        for (int p = 0; p < n; ++p) for (int q = p + 1; q < n; ++q) {
            LD alpha = 0, beta = 0; S gamma = S(0);
            for (int i = 0; i < m; ++i) { alpha += abs2S(G(i, p)); beta += abs2S(G(i, q)); gamma += conjS(G(i, p)) * G(i, q); }
            LD ag = absS(gamma);
            if (ag == 0 || ag <= 4 * eps * std::sqrt(alpha * beta)) continue;
            rotated = true;
            S ph = gamma / S(ag);                     // unit phase: g_p^H (g_q conj(ph)) = |gamma|
            LD zeta = (beta - alpha) / (2 * ag);
            LD t = (zeta >= 0 ? 1 : -1) / (std::fabs(zeta) + std::sqrt(1 + zeta * zeta));
            LD c = 1 / std::sqrt(1 + t * t), sn = c * t;
            for (int i = 0; i < m; ++i) { S gp = G(i, p), gq = G(i, q) * conjS(ph); G(i, p) = S(c) * gp - S(sn) * gq; G(i, q) = S(sn) * gp + S(c) * gq; }
            for (int i = 0; i < n; ++i) { S gp = W(i, p), gq = W(i, q) * conjS(ph); W(i, p) = S(c) * gp - S(sn) * gq; W(i, q) = S(sn) * gp + S(c) * gq; }
        }
        if (!rotated) break;
    }
    std::vector<LD> nr(n); for (int j = 0; j < n; ++j) { LD x = 0; for (int i = 0; i < m; ++i) x += abs2S(G(i, j)); nr[j] = std::sqrt(x); }
    std::vector<int> ord(n); for (int j = 0; j < n; ++j) ord[j] = j;
    std::stable_sort(ord.begin(), ord.end(), [&](int a, int b) { return nr[a] > nr[b]; });
    U = Mat<S>(m, n); V = Mat<S>(n, n); s.assign(n, 0);
    for (int k = 0; k < n; ++k) { int j = ord[k]; s[k] = nr[j]; for (int i = 0; i < n; ++i) V(i, k) = W(i, j); if (nr[j] > 0) for (int i = 0; i < m; ++i) U(i, k) = G(i, j) / S(nr[j]); }
}

// pseudo-inverse V diag(1/s_i, i < rank) U^H  (n x m)
template <class S> Mat<S> pinvFromSVD(const Mat<S>& U, const std::vector<LD>& s, const Mat<S>& V, int rank) {
    Mat<S> P(V.m, U.m);
    for (int k = 0; k < rank; ++k) for (int i = 0; i < V.m; ++i) { S f = V(i, k) / S(s[k]); for (int j = 0; j < U.m; ++j) P(i, j) += f * conjS(U(j, k)); }
    return P;
}

// deterministic bulk numbers: splitmix64
struct Rng {
    uint64_t s;
    explicit Rng(uint64_t seed) : s(seed) {}
    uint64_t next() { uint64_t z = (s += 0x9e3779b97f4a7c15ull); z = (z ^ (z >> 30)) * 0xbf58476d1ce4e5b9ull; z = (z ^ (z >> 27)) * 0x94d049bb133111ebull; return z ^ (z >> 31); }
    LD sym() { return (LD)((double)(next() >> 11) / 9007199254740992.0) * 2 - 1; }     // (-1,1)
    int below(int n) { return n <= 1 ? 0 : (int)(next() % (uint64_t)n); }
};
inline void fillScalar(Rng& r, LD& x) { x = r.sym(); }
inline void fillScalar(Rng& r, CL& x) { LD a = r.sym(), b = r.sym(); x = CL(a, b); }

// Q <- Q * (I - 2 v v^H / (v^H v))
template <class S> void reflect(Mat<S>& Q, const std::vector<S>& v) {
    LD vv = 0; for (auto& x : v) vv += abs2S(x);
    if (vv == 0) return;
    for (int i = 0; i < Q.m; ++i) { S d = S(0); for (int k = 0; k < Q.n; ++k) d += Q(i, k) * v[k]; d *= S(2 / vv); for (int k = 0; k < Q.n; ++k) Q(i, k) -= d * conjS(v[k]); }
}
// product of `count` Householder reflectors with pseudo-random vectors (count 0 -> identity)
template <class S> Mat<S> randomUnitary(int n, int count, Rng& r) {
    Mat<S> Q = eye<S>(n);
    for (int c = 0; c < count; ++c) { std::vector<S> v(n); for (auto& x : v) fillScalar(r, x); reflect(Q, v); }
    return Q;
}

} // namespace dense
