// evsys.h -- event witnesses, handlers and reporters with an exact oracle (C22, reused by C23).
//
// Owner: int2 (C22/C23). Builds on gen/anasys.h (READ-ONLY here): anasys::Spec / Solution / AnaSystem
// supply the ODE with its closed-form solution; this header adds what anasys lacks:
//   * evsys::Wit        time-only witness functions  s*(t-c)  and  sin(omega (t-c))  with monitored
//                       directions, localisation window and a *declared* realization stage (the value is a
//                       function of time only whatever the stage, so the by-stage trigger bookkeeping of
//                       the System is exercised while the crossing times stay exactly known)
//   * exact sign / crossing helpers that mirror the documented detection rule
//                       (Event::classifyTransition: "do not report transitions away from zero")
//   * handlers and reporters of all six kinds (Triggered/Scheduled/Periodic x Handler/Reporter) that log
//                       every call (time, state before and after) into an evsys::Log and perform an Action
//                       (scale z, kick u, set q, set a discrete variable (Measure::Variable), terminate)
// No global state, no randomness. The Log is owned by the caller and must outlive the System.
#pragma once
#include "anasys.h"
#include "SimTKcommon.h"
#include <cmath>
#include <vector>
#include <string>
#include <sstream>

namespace evsys {

inline int sgn(double x) { return x > 0 ? 1 : (x < 0 ? -1 : 0); }

// ------------------------------------------------------------------ witnesses
struct Wit {
    enum Kind { Linear = 0, Sine = 1 };
    int kind = Linear;
    double c = 0, omega = 1, slope = 1;  // Linear: slope*(t-c), slope = +-1 ; Sine: sin(omega*(t-c))
    bool rising = true, falling = true;  // monitored directions
    double window = 0.1;                 // required localisation window (units of the system time scale)
    int stage = 0;                       // 0 Time, 1 Position, 2 Velocity, 3 Dynamics, 4 Acceleration (declared stage only)
    bool reporter = false;               // TriggeredEventReporter instead of TriggeredEventHandler
    // the ONE expression both the library-side handler and the oracle evaluate (so signs agree bitwise)
    double value(double t) const { return kind == Linear ? slope * (t - c) : std::sin(omega * (t - c)); }
    SimTK::Stage simtkStage() const {
        switch (stage) { case 1: return SimTK::Stage::Position; case 2: return SimTK::Stage::Velocity; case 3: return SimTK::Stage::Dynamics;
                         case 4: return SimTK::Stage::Acceleration; default: return SimTK::Stage::Time; }
    }
    std::string describe() const {
        std::ostringstream o; o.precision(17);
        if (kind == Linear) o << (slope > 0 ? "(t-c)" : "(c-t)") << " c=" << c; else o << "sin(om(t-c)) c=" << c << " om=" << omega;
        o << " mask=" << (rising ? "R" : "") << (falling ? "F" : "") << (!rising && !falling ? "none" : "") << " window=" << window << " stage=" << stage << (reporter ? " reporter" : " handler");
        return o.str();
    }
};

// The documented detection rule over an interval whose end values have signs (before, after):
// 0 = nothing, +1 = rising (negative -> zero/positive), -1 = falling (positive -> zero/negative);
// transitions AWAY from zero are not reported (Event::classifyTransition).
inline int transition(int before, int after) { if (before == after || before == 0) return 0; return before < 0 ? +1 : -1; }
inline bool monitored(const Wit& w, int tr) { return (tr > 0 && w.rising) || (tr < 0 && w.falling); }
// monitored transition of w between the sample times x < y (by end signs, exactly as an integrator sees it)
inline int seenTransition(const Wit& w, double x, double y) { int tr = transition(sgn(w.value(x)), sgn(w.value(y))); return monitored(w, tr) ? tr : 0; }

struct Cross { double t; int dir; };   // dir +1 rising, -1 falling
// Analytic sign changes of w with lo < t <= hi, in time order (Linear: exact; Sine: to ~1 ulp of c + k pi/omega).
inline std::vector<Cross> crossings(const Wit& w, double lo, double hi) {
    std::vector<Cross> out;
    if (w.kind == Wit::Linear) { if (w.c > lo && w.c <= hi) out.push_back({w.c, w.slope > 0 ? +1 : -1}); return out; }
    if (w.omega == 0) return out;
    const double pi = 3.14159265358979323846, per = pi / std::abs(w.omega);
    long k0 = (long)std::floor((lo - w.c) / per) - 1, k1 = (long)std::ceil((hi - w.c) / per) + 1;
    for (long k = k0; k <= k1; ++k) {
        double t = w.c + k * per; if (!(t > lo && t <= hi)) continue;
        bool up = (((k % 2) + 2) % 2 == 0) == (w.omega > 0);
        out.push_back({t, up ? +1 : -1});
    }
    return out;
}

// ------------------------------------------------------------------ actions, log
struct Action {
    enum Kind { None = 0, ScaleZ = 1, KickU = 2, SetQ = 3, SetDiscrete = 4, Terminate = 5 };
    int kind = None; double value = 1; int index = 0;
    bool modifiesContinuous() const { return kind == ScaleZ || kind == KickU || kind == SetQ; }
    std::string describe() const { static const char* n[] = {"none", "scaleZ", "kickU", "setQ", "setDiscrete", "terminate"}; std::ostringstream o; o << n[kind]; if (kind != None && kind != Terminate) o << "(" << value << ")"; return o.str(); }
};
enum Source { TrigHandler = 0, SchedHandler = 1, PeriodicHandler = 2, TrigReporter = 3, SchedReporter = 4, PeriodicReporter = 5 };
struct Rec {
    int source, id; double t;
    std::vector<double> yBefore, yAfter;   // continuous state when called / when the handler returned
    double dvBefore, dvAfter;              // discrete variable (NaN if the system has none)
};
struct Log { std::vector<Rec> recs; };

typedef SimTK::Measure_<SimTK::Real>::Variable DiscreteVar;

struct Shared {     // what every handler needs; owned by the caller, outlives the System
    Log* log = nullptr;
    const DiscreteVar* dv = nullptr;     // optional discrete variable the SetDiscrete action writes
};

inline std::vector<double> yOf(const SimTK::State& s) { const SimTK::Vector& y = s.getY(); std::vector<double> v(y.size()); for (int i = 0; i < y.size(); ++i) v[i] = y[i]; return v; }

inline void record(const Shared& sh, int source, int id, const SimTK::State& s, Rec& r) {
    r.source = source; r.id = id; r.t = s.getTime(); r.yBefore = yOf(s);
    r.dvBefore = sh.dv ? sh.dv->getValue(s) : SimTK::NaN; r.dvAfter = r.dvBefore; r.yAfter = r.yBefore;
}
inline void perform(const Shared& sh, const Action& a, SimTK::State& s, bool& shouldTerminate) {
    switch (a.kind) {
        case Action::ScaleZ: if (s.getNZ() > 0) s.updZ() *= a.value; break;
        case Action::KickU:  if (s.getNU() > 0) s.updU()[a.index % s.getNU()] += a.value; break;
        case Action::SetQ:   if (s.getNQ() > 0) s.updQ()[a.index % s.getNQ()] = a.value; break;
        case Action::SetDiscrete: if (sh.dv) sh.dv->setValue(s, a.value); break;
        case Action::Terminate: shouldTerminate = true; break;
        default: break;
    }
}
inline void handle(const Shared& sh, int source, int id, const Action& a, SimTK::State& s, bool& shouldTerminate) {
    Rec r; record(sh, source, id, s, r);
    perform(sh, a, s, shouldTerminate);
    r.yAfter = yOf(s); if (sh.dv) r.dvAfter = sh.dv->getValue(s);
    if (sh.log) sh.log->recs.push_back(r);
}
inline void report(const Shared& sh, int source, int id, const SimTK::State& s) { Rec r; record(sh, source, id, s, r); if (sh.log) sh.log->recs.push_back(r); }

// ------------------------------------------------------------------ the six handler / reporter kinds
class WitHandler : public SimTK::TriggeredEventHandler {
public:
    WitHandler(const Wit& w, int id, const Shared* sh, const Action& act) : SimTK::TriggeredEventHandler(w.simtkStage()), wit(w), id(id), sh(sh), act(act) {
        getTriggerInfo().setTriggerOnRisingSignTransition(w.rising); getTriggerInfo().setTriggerOnFallingSignTransition(w.falling);
        getTriggerInfo().setRequiredLocalizationTimeWindow(w.window);
    }
    SimTK::Real getValue(const SimTK::State& s) const override { return wit.value(s.getTime()); }
    void handleEvent(SimTK::State& s, SimTK::Real, bool& shouldTerminate) const override { handle(*sh, TrigHandler, id, act, s, shouldTerminate); }
    const Wit wit; const int id;
private: const Shared* sh; Action act;
};
class WitReporter : public SimTK::TriggeredEventReporter {
public:
    WitReporter(const Wit& w, int id, const Shared* sh) : SimTK::TriggeredEventReporter(w.simtkStage()), wit(w), id(id), sh(sh) {
        getTriggerInfo().setTriggerOnRisingSignTransition(w.rising); getTriggerInfo().setTriggerOnFallingSignTransition(w.falling);
        getTriggerInfo().setRequiredLocalizationTimeWindow(w.window);
    }
    SimTK::Real getValue(const SimTK::State& s) const override { return wit.value(s.getTime()); }
    void handleEvent(const SimTK::State& s) const override { report(*sh, TrigReporter, id, s); }
    const Wit wit; const int id;
private: const Shared* sh;
};
inline double nextOf(const std::vector<double>& sortedTimes, double t, bool includeCurrent) {
    for (double x : sortedTimes) if (x > t || (includeCurrent && x == t)) return x;
    return SimTK::Infinity;
}
class ListHandler : public SimTK::ScheduledEventHandler {     // fires at a sorted list of times
public:
    ListHandler(const std::vector<double>& sortedTimes, int id, const Shared* sh, const Action& act) : times(sortedTimes), id(id), sh(sh), act(act) {}
    SimTK::Real getNextEventTime(const SimTK::State& s, bool includeCurrentTime) const override { return nextOf(times, s.getTime(), includeCurrentTime); }
    void handleEvent(SimTK::State& s, SimTK::Real, bool& shouldTerminate) const override { handle(*sh, SchedHandler, id, act, s, shouldTerminate); }
    const std::vector<double> times; const int id;
private: const Shared* sh; Action act;
};
class ListReporter : public SimTK::ScheduledEventReporter {
public:
    ListReporter(const std::vector<double>& sortedTimes, int id, const Shared* sh) : times(sortedTimes), id(id), sh(sh) {}
    SimTK::Real getNextEventTime(const SimTK::State& s, bool includeCurrentTime) const override { return nextOf(times, s.getTime(), includeCurrentTime); }
    void handleEvent(const SimTK::State& s) const override { report(*sh, SchedReporter, id, s); }
    const std::vector<double> times; const int id;
private: const Shared* sh;
};
class PerHandler : public SimTK::PeriodicEventHandler {        // the library computes the times: k * interval
public:
    PerHandler(double interval, int id, const Shared* sh, const Action& act) : SimTK::PeriodicEventHandler(interval), id(id), sh(sh), act(act) {}
    void handleEvent(SimTK::State& s, SimTK::Real, bool& shouldTerminate) const override { handle(*sh, PeriodicHandler, id, act, s, shouldTerminate); }
    const int id;
private: const Shared* sh; Action act;
};
class PerReporter : public SimTK::PeriodicEventReporter {
public:
    PerReporter(double interval, int id, const Shared* sh) : SimTK::PeriodicEventReporter(interval), id(id), sh(sh) {}
    void handleEvent(const SimTK::State& s) const override { report(*sh, PeriodicReporter, id, s); }
    const int id;
private: const Shared* sh;
};

// documented periodic schedule: all k*interval (k integer, product formed in double) with lo <= t <= hi
inline std::vector<double> periodicTimes(double interval, double lo, double hi) {
    std::vector<double> out; if (!(interval > 0)) return out;
    long long k = (long long)std::floor(lo / interval) - 1;
    for (;; ++k) { double t = (double)k * interval; if (t > hi) break; if (t >= lo) out.push_back(t); if (out.size() > 100000) break; }
    return out;
}

} // namespace evsys

// ------------------------------------------------------------------ a home for Measures (C23)
// An otherwise empty Subsystem: Measures constructed on it get their state variables (z, discrete, cache) in this
// subsystem's slots, so they never mix with the variables anasys::AnaSystem keeps in the default subsystem.
namespace evsys {
class MeasureSubsystem : public SimTK::Subsystem {
    class MGuts : public SimTK::Subsystem::Guts {
    public:
        MGuts() : SimTK::Subsystem::Guts("evsys::MeasureSubsystem", "1.0.0") {}
        MGuts* cloneImpl() const override { return new MGuts(*this); }
    };
public:
    explicit MeasureSubsystem(SimTK::System& sys) { adoptSubsystemGuts(new MGuts()); sys.adoptSubsystem(*this); }
};
} // namespace evsys
