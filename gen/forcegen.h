// forcegen.h -- built-in NON-contact force elements decoded from a pbt tape unit, on an mbgen tree
// (DESIGN.md 3.1 "Force units", properties C38, C16; reusable by C12/C13).
//
//   forcegen::ForceSpec fs = forcegen::decodeForce(seg, modelSpec, opt);     // total decoder, K words
//   forcegen::Element  e  = forcegen::addToModel(built, modelSpec, fs);      // between Built(spec) and finish()
//   forcegen::Vals     v  = forcegen::initialVals(fs);                       // state-level values of a fresh State
//   forcegen::Op       op = forcegen::decodeOp(reader, elements, modelSpec); // one state-level change
//   forcegen::applyOp(built, state, e, v, op);                               // public setter + model update
//   forcegen::applyVals(built, state, e, v);                                 // all values -> a fresh State (canonical order)
//   forcegen::Kin kin = forcegen::snapshot(built, modelSpec, state);         // REPORTED kinematics (>= Velocity stage)
//   forcegen::refLaw(e, v, kin, applied);                                    // documented law evaluated here
//
// Documented preconditions are part of the generator: MobilityLinearSpring / MobilityLinearStop are attached only
// to mobilizers with qdot == u (header @bug notes); stiffness, damping, dissipation >= 0; qLow <= qHigh; gravity
// magnitude >= 0; TwoPoint* elements with (nearly) coincident points and a LinearBushing near its documented
// singularity (middle angle near 90 degrees) are flagged `skip` by refLaw (the caller does not judge them).
//
// The reference law uses ONLY: body transforms/velocities and per-mobilizer q,u,qdot as reported by the matter
// subsystem, the mass properties the generator put in, and the parameter values of the model (`Vals`).
#pragma once
#include "pbt.h"
#include "mbgen.h"

namespace forcegen {
using namespace SimTK;

const int K = 48;   // words read from a force unit (fits into an mbgen::K = 52 segment; words 48..51 stay free)

enum Kind { Gravity = 0, UniformGravity, TwoPointLinearSpring, TwoPointLinearDamper, TwoPointConstantForce, ConstantForce, ConstantTorque,
            GlobalDamper, MobilityLinearSpring, MobilityLinearDamper, MobilityConstantForce, MobilityLinearStop, MobilityDiscreteForce,
            DiscreteForces, LinearBushing, NumKinds };
inline const char* kindName(int k) {
    static const char* n[] = {"Gravity", "UniformGravity", "TwoPointLinearSpring", "TwoPointLinearDamper", "TwoPointConstantForce", "ConstantForce", "ConstantTorque",
                              "GlobalDamper", "MobilityLinearSpring", "MobilityLinearDamper", "MobilityConstantForce", "MobilityLinearStop", "MobilityDiscreteForce",
                              "DiscreteForces", "LinearBushing"};
    return k >= 0 && k < NumKinds ? n[k] : "?";
}
// the library caches these as "position only" in GeneralForceSubsystem (ForceImpl::dependsOnlyOnPositions)
inline bool isTwoPoint(int k) { return k == TwoPointLinearSpring || k == TwoPointLinearDamper || k == TwoPointConstantForce; }
inline bool needsQDotIsU(int k) { return k == MobilityLinearSpring || k == MobilityLinearStop; }
inline bool onMobility(int k) { return k == MobilityLinearSpring || k == MobilityLinearDamper || k == MobilityConstantForce || k == MobilityLinearStop || k == MobilityDiscreteForce; }

struct Options {
    unsigned kindMask = (1u << NumKinds) - 1;
    bool allowDisabledByDefault = true;
    Options& only(std::initializer_list<int> ks) { kindMask = 0; for (int k : ks) kindMask |= 1u << k; return *this; }
    Options& without(std::initializer_list<int> ks) { for (int k : ks) kindMask &= ~(1u << k); return *this; }
};

struct ForceSpec {
    int kind = Gravity; bool disabledByDefault = false;
    int b1 = 0, b2 = 1;              // bodies (0 = Ground, i = i-th generated body)
    Vec3 s1 = Vec3(0), s2 = Vec3(0); // stations (TwoPoint*, ConstantForce)
    Transform X1, X2;                // LinearBushing frames F on b1, M on b2
    int mob = 1, coord = 0;          // mobilizer (body index) and coordinate / mobility within it
    Real k = 1, x0 = 0, c = 0, f = 0, d = 0, qlo = -Infinity, qhi = Infinity;
    Vec3 vec = Vec3(0);              // ConstantForce / ConstantTorque vector, UniformGravity g
    Vec6 bk = Vec6(0), bc = Vec6(0);
    int gravCtor = 0; Vec3 down = Vec3(0, -1, 0); Real gmag = 0, zeroHeight = 0; std::vector<bool> defExcluded;   // Gravity (defExcluded[0] = Ground)
    void describe(std::ostream& o) const {
        o.precision(17);
        o << kindName(kind) << (disabledByDefault ? " (disabled by default)" : "");
        switch (kind) {
            case Gravity: o << " ctor=" << gravCtor << " down=" << down << " g=" << gmag << " zeroHeight=" << zeroHeight << " defaultExcluded="; for (size_t i = 1; i < defExcluded.size(); ++i) o << (defExcluded[i] ? 1 : 0); break;
            case UniformGravity: o << " g=" << vec << " zeroHeight=" << zeroHeight; break;
            case TwoPointLinearSpring: o << " b1=" << b1 << " s1=" << s1 << " b2=" << b2 << " s2=" << s2 << " k=" << k << " x0=" << x0; break;
            case TwoPointLinearDamper: o << " b1=" << b1 << " s1=" << s1 << " b2=" << b2 << " s2=" << s2 << " c=" << c; break;
            case TwoPointConstantForce: o << " b1=" << b1 << " s1=" << s1 << " b2=" << b2 << " s2=" << s2 << " f=" << f; break;
            case ConstantForce: o << " body=" << b1 << " station=" << s1 << " force=" << vec; break;
            case ConstantTorque: o << " body=" << b1 << " torque=" << vec; break;
            case GlobalDamper: o << " c=" << c; break;
            case MobilityLinearSpring: o << " mobod=" << mob << " q#" << coord << " k=" << k << " q0=" << x0; break;
            case MobilityLinearDamper: o << " mobod=" << mob << " u#" << coord << " c=" << c; break;
            case MobilityConstantForce: o << " mobod=" << mob << " u#" << coord << " f=" << f; break;
            case MobilityLinearStop: o << " mobod=" << mob << " q#" << coord << " k=" << k << " d=" << d << " qLow=" << qlo << " qHigh=" << qhi; break;
            case MobilityDiscreteForce: o << " mobod=" << mob << " u#" << coord << " f=" << f; break;
            case DiscreteForces: break;
            case LinearBushing: o << " b1=" << b1 << " b2=" << b2 << " X_B1F.p=" << X1.p() << " X_B1F.R(quat)=" << X1.R().convertRotationToQuaternion().asVec4()
                                  << " X_B2M.p=" << X2.p() << " X_B2M.R(quat)=" << X2.R().convertRotationToQuaternion().asVec4() << " k=" << bk << " c=" << bc; break;
        }
        o << "\n";
    }
};

// nonnegative coefficient: exactly 0 for 1/8 of the words, else log-uniform
inline Real readCoef(pbt::Reader& r, Real lo, Real hi) { uint32_t w = r.w(); if ((w & 7u) == 7u) return 0; pbt::Seg s{w >> 3 | (w << 29)}; pbt::Reader q(s); return q.logreal(lo, hi); }

// Decode one force unit (total: any words give a legal element for ANY model with >= 1 body).
inline ForceSpec decodeForce(const pbt::Seg& seg, const mbgen::ModelSpec& m, const Options& opt = Options()) {
    pbt::Reader r(seg); ForceSpec f; const int nb = m.nBodies();
    // ---- common pool of raw choices (fixed positions so that shrinking one field does not shift the others)
    int kindW = (int)(r.w() % 1000003u);
    f.disabledByDefault = r.chance(1, 8) && opt.allowDisabledByDefault;
    uint32_t wa = r.w(), wb = r.w(), wc = r.w(), wd = r.w();
    Vec3 va = mbgen::readVec3(r, -0.8, 0.8), vb = mbgen::readVec3(r, -0.8, 0.8), vc = mbgen::readVec3(r, -10, 10);
    Rotation R1 = mbgen::readRotation(r), R2 = mbgen::readRotation(r);
    Real stiff = readCoef(r, 0.1, 100), damp = readCoef(r, 0.01, 10), diss = readCoef(r, 0.05, 2);
    Real len0 = r.real(0, 2), q0 = r.real(-1.5, 1.5), fs = r.real(-10, 10), lo = r.real(-1, 1), width = r.real(0, 1.5);
    uint32_t wBounds = r.w();
    Vec6 bk, bc; for (int i = 0; i < 6; ++i) bk[i] = readCoef(r, 0.1, 100); for (int i = 0; i < 6; ++i) bc[i] = readCoef(r, 0.01, 10);
    uint32_t wExcl = r.w(); Real zh = r.real(-3, 3);

    // ---- kind among allowed and feasible ones
    std::vector<int> mobAny, mobQU;   // bodies with nu > 0 ; and with qdot == u
    for (int i = 0; i < nb; ++i) { int t = m.bodies[i].type; if (mbgen::mobNU(t) > 0) { mobAny.push_back(i + 1); if (mbgen::mobQDotIsU(t)) mobQU.push_back(i + 1); } }
    std::vector<int> allowed;
    for (int k = 0; k < NumKinds; ++k) {
        if (!(opt.kindMask >> k & 1u)) continue;
        if (needsQDotIsU(k) && mobQU.empty()) continue;
        if (onMobility(k) && mobAny.empty()) continue;
        allowed.push_back(k);
    }
    if (allowed.empty()) allowed.push_back(Gravity);
    f.kind = allowed[kindW % (int)allowed.size()];

    // ---- attachments
    f.b1 = int(wa % uint32_t(nb + 1)); f.b2 = int(wb % uint32_t(nb + 1));
    if (wa == 0 && wb == 0) { f.b1 = 0; f.b2 = nb; }                               // simplest: Ground -- last body
    if (f.kind == ConstantForce || f.kind == ConstantTorque) { if (f.b1 == 0 && (wa >> 8) % 8u != 0) f.b1 = 1 + int((wa >> 11) % uint32_t(nb)); }   // mostly a moving body, Ground sometimes
    if ((isTwoPoint(f.kind) || f.kind == LinearBushing) && f.b1 == f.b2 && (wb >> 8) % 8u != 0) f.b2 = (f.b1 + 1 + int((wb >> 11) % uint32_t(nb))) % (nb + 1);   // same body only rarely
    f.s1 = va; f.s2 = vb;
    if (isTwoPoint(f.kind) && f.b1 == f.b2 && (f.s1 - f.s2).norm() < 0.1) f.s2 = f.s1 + Vec3(0.3, 0.2, -0.1);   // never coincident by construction on one body
    f.X1 = Transform(R1, va); f.X2 = Transform(R2, vb);
    if (f.kind == LinearBushing && (wc & 3u) == 0) { f.X1 = Transform(); f.X2 = Transform(); }                  // the body-frame convenience constructor
    {   const std::vector<int>& cand = needsQDotIsU(f.kind) ? mobQU : mobAny;
        if (!cand.empty()) { f.mob = cand[wc % cand.size()]; int n = mbgen::mobNU(m.bodies[f.mob - 1].type); f.coord = int(wd % uint32_t(n)); }
    }
    // ---- parameters
    f.k = stiff; f.c = damp; f.d = diss; f.f = fs; f.vec = vc; f.bk = bk; f.bc = bc;
    f.x0 = f.kind == TwoPointLinearSpring ? len0 : q0;
    switch (wBounds % 8u) { case 1: f.qlo = -Infinity; f.qhi = lo; break; case 2: f.qlo = lo; f.qhi = Infinity; break; case 3: f.qlo = -Infinity; f.qhi = Infinity; break; case 4: f.qlo = f.qhi = lo; break;
                            default: f.qlo = lo - 0.5 * width; f.qhi = lo + 0.5 * width; break; }
    f.zeroHeight = zh;
    if (f.kind == UniformGravity) { if ((wExcl & 15u) == 15u) f.vec = Vec3(0); }
    if (f.kind == Gravity) {
        f.gravCtor = int(wExcl % 4u);        // 0,3: (down, g, zeroHeight); 1: gravity vector; 2: magnitude only (down = -system up = -Y)
        f.gmag = (wExcl >> 2) % 8u == 7u ? 0 : vc.norm();
        Vec3 dv = vc.norm() > 0 ? vc : Vec3(0, -1, 0);
        f.down = UnitVec3(dv).asVec3();
        if (f.gravCtor == 1) { f.zeroHeight = 0; f.vec = f.gmag * f.down; f.gmag = f.vec.norm(); if (f.gmag > 0) f.down = f.vec / f.gmag; else f.down = Vec3(0, -1, 0); }   // documented: g = |gravity|, d = gravity/g
        if (f.gravCtor == 2) { f.zeroHeight = 0; f.down = Vec3(0, -1, 0); }
        f.defExcluded.assign(nb + 1, false); f.defExcluded[0] = true;
        if ((wExcl >> 5) % 2u) for (int i = 1; i <= nb; ++i) f.defExcluded[i] = ((wExcl >> (6 + (i - 1) % 24)) & 1u) != 0;
    }
    return f;
}

// ------------------------------------------------------------------ model side
struct Element {
    ForceSpec spec; Force force;   // generic handle (reference to the element owned by the subsystem)
    Force::Gravity grav; Force::UniformGravity ugrav; Force::MobilityLinearSpring mls; Force::MobilityLinearDamper mld; Force::MobilityConstantForce mcf;
    Force::MobilityLinearStop stop; Force::MobilityDiscreteForce mdf; Force::DiscreteForces disc; Force::LinearBushing bush;
};

inline Element addToModel(mbgen::Built& m, const mbgen::ModelSpec& ms, const ForceSpec& f) {
    Element e; e.spec = f; GeneralForceSubsystem& F = m.forces; (void)ms;
    switch (f.kind) {
        case Gravity:
            if (f.gravCtor == 1) e.grav = Force::Gravity(F, m.matter, f.vec);
            else if (f.gravCtor == 2) e.grav = Force::Gravity(F, m.matter, f.gmag);
            else e.grav = Force::Gravity(F, m.matter, UnitVec3(f.down, true), f.gmag, f.zeroHeight);   // f.down is already a unit vector: the model holds the same bits
            for (size_t i = 1; i < f.defExcluded.size(); ++i) if (f.defExcluded[i]) e.grav.setDefaultBodyIsExcluded(MobilizedBodyIndex((int)i), true);
            e.force = e.grav; break;
        case UniformGravity: e.ugrav = Force::UniformGravity(F, m.matter, f.vec, f.zeroHeight); e.force = e.ugrav; break;
        case TwoPointLinearSpring: e.force = Force::TwoPointLinearSpring(F, m.mb[f.b1], f.s1, m.mb[f.b2], f.s2, f.k, f.x0); break;
        case TwoPointLinearDamper: e.force = Force::TwoPointLinearDamper(F, m.mb[f.b1], f.s1, m.mb[f.b2], f.s2, f.c); break;
        case TwoPointConstantForce: e.force = Force::TwoPointConstantForce(F, m.mb[f.b1], f.s1, m.mb[f.b2], f.s2, f.f); break;
        case ConstantForce: e.force = Force::ConstantForce(F, m.mb[f.b1], f.s1, f.vec); break;
        case ConstantTorque: e.force = Force::ConstantTorque(F, m.mb[f.b1], f.vec); break;
        case GlobalDamper: e.force = Force::GlobalDamper(F, m.matter, f.c); break;
        case MobilityLinearSpring: e.mls = Force::MobilityLinearSpring(F, m.mb[f.mob], MobilizerQIndex(f.coord), f.k, f.x0); e.force = e.mls; break;
        case MobilityLinearDamper: e.mld = Force::MobilityLinearDamper(F, m.mb[f.mob], MobilizerUIndex(f.coord), f.c); e.force = e.mld; break;
        case MobilityConstantForce: e.mcf = Force::MobilityConstantForce(F, m.mb[f.mob], MobilizerUIndex(f.coord), f.f); e.force = e.mcf; break;
        case MobilityLinearStop: e.stop = Force::MobilityLinearStop(F, m.mb[f.mob], MobilizerQIndex(f.coord), f.k, f.d, f.qlo, f.qhi); e.force = e.stop; break;
        case MobilityDiscreteForce: e.mdf = Force::MobilityDiscreteForce(F, m.mb[f.mob], MobilizerUIndex(f.coord), f.f); e.force = e.mdf; break;
        case DiscreteForces: e.disc = Force::DiscreteForces(F, m.matter); e.force = e.disc; break;
        case LinearBushing:
            if (f.X1.p() == Vec3(0) && f.X2.p() == Vec3(0) && f.X1.R().isSameRotationToWithinAngle(Rotation(), 0) && f.X2.R().isSameRotationToWithinAngle(Rotation(), 0))
                 e.bush = Force::LinearBushing(F, m.mb[f.b1], m.mb[f.b2], f.bk, f.bc);
            else e.bush = Force::LinearBushing(F, m.mb[f.b1], f.X1, m.mb[f.b2], f.X2, f.bk, f.bc);
            e.force = e.bush; break;
    }
    if (f.disabledByDefault) e.force.setDisabledByDefault(true);
    return e;
}

// ------------------------------------------------------------------ state-level values (the model of the State's force variables)
struct Vals {
    bool disabled = false;
    Real k = 0, x0 = 0, c = 0, f = 0, d = 0, qlo = 0, qhi = 0;
    Vec6 bk = Vec6(0), bc = Vec6(0); Transform X1, X2;
    Vec3 down = Vec3(0, -1, 0); Real gmag = 0, zeroHeight = 0; std::vector<bool> excluded;
    Vec3 gvec = Vec3(0);   // Gravity: the last vector given to the constructor / setGravityVector if its norm is still the magnitude, else gmag*down
    Vector mobF; Vector_<SpatialVec> bodyF;   // DiscreteForces: empty == all zero
};
inline Vals initialVals(const ForceSpec& f) {
    Vals v; v.disabled = f.disabledByDefault; v.k = f.k; v.x0 = f.x0; v.c = f.c; v.f = f.f; v.d = f.d; v.qlo = f.qlo; v.qhi = f.qhi;
    v.bk = f.bk; v.bc = f.bc; v.X1 = f.X1; v.X2 = f.X2; v.down = f.down; v.gmag = f.gmag; v.zeroHeight = f.zeroHeight; v.excluded = f.defExcluded;
    v.gvec = (f.kind == Gravity && f.gravCtor == 1) ? f.vec : f.gmag * f.down;
    return v;
}

// One state-level change of one element.
enum OpWhat { OpEnable = 0, OpDisable, OpSetA, OpSetB, OpSetC, OpSetD, OpSetE, OpSetF, OpSetG, OpSetH };
struct Op {
    int elem = 0; int what = OpDisable; std::string name;
    Real a = 0, b = 0; Vec3 v = Vec3(0), v2 = Vec3(0); Vec6 v6 = Vec6(0); Transform X; int body = 0, coord = 0; bool flag = false;
    Vector vecU; Vector_<SpatialVec> vecB; bool structured = false;
    bool isParam() const { return what >= OpSetA; }
    void describe(std::ostream& o) const { o.precision(17); o << "elem#" << elem << " " << name; }
};

// names of the parameter setters of each kind (index = what - OpSetA)
inline std::vector<const char*> setterNames(int kind) {
    switch (kind) {
        case Gravity: return {"setMagnitude", "setDownDirection", "setZeroHeight", "setBodyIsExcluded", "setGravityVector"};
        case MobilityLinearSpring: return {"setStiffness", "setQZero"};
        case MobilityLinearDamper: return {"setDamping"};
        case MobilityConstantForce: return {"setForce"};
        case MobilityLinearStop: return {"setBounds", "setMaterialProperties"};
        case MobilityDiscreteForce: return {"setMobilityForce"};
        case DiscreteForces: return {"setOneMobilityForce", "setOneBodyForce", "addForceToBodyPoint", "setAllMobilityForces", "setAllBodyForces", "clearAllMobilityForces", "clearAllBodyForces", "clearAllForces"};
        case LinearBushing: return {"setStiffness", "setDamping", "setFrameOnBody1", "setFrameOnBody2"};
        default: return {};
    }
}

// ---- structured new values derived from the current one (same norm / same value / exact scaling / one component only):
// they exercise "did THIS kind of change invalidate what it must" (e.g. a direction-only change of a vector parameter).
inline Real deriveScalar(Real cur, Real fresh, int mode, bool allowNeg) {
    switch (mode % 8) { case 0: case 4: return cur; case 1: return 2 * cur; case 2: return 0.5 * cur; case 3: return allowNeg ? -cur : cur; case 5: return allowNeg ? -2 * cur : 2 * cur;
                        case 6: return cur == 0 ? fresh : (allowNeg ? -0.5 * cur : 0.5 * cur); default: return cur == 0 ? fresh : cur; }
}
inline Vec3 deriveVec3(const Vec3& c, const Vec3& fresh, int mode, int k) {
    k = ((k % 3) + 3) % 3; Vec3 v = c;
    switch (mode % 8) { case 0: return c;                                   // the same value again
                        case 1: return -c;                                  // negated (exactly the same norm)
                        case 2: return Vec3(c[1], c[2], c[0]);              // components permuted
                        case 3: v[k] = -v[k]; return v;                     // one sign flipped (exactly the same norm)
                        case 4: return 2.0 * c;                             // exact scaling (same direction)
                        case 5: return 0.5 * c;
                        case 6: v[k] = fresh[k]; return v;                  // one component changed only
                        default: std::swap(v[k], v[(k + 1) % 3]); return v; }   // two components swapped
}
inline Vec6 deriveVec6(const Vec6& c, const Vec6& fresh, int mode, int k) {
    k = ((k % 6) + 6) % 6; Vec6 v = c;
    switch (mode % 6) { case 0: return c; case 1: for (int i = 0; i < 6; ++i) v[i] = c[(i + 1) % 6]; return v; case 2: return 2.0 * c; case 3: return 0.5 * c; case 4: v[k] = fresh[k]; return v;
                        default: std::swap(v[k], v[(k + 1) % 6]); return v; }
}

// Decode an op from a reader (consumes <= 42 words). elems must be non-empty. If `cur` (the current values of all elements) is
// given, half of the parameter operations take a STRUCTURED new value derived from the current one instead of a fresh random one.
inline Op decodeOp(pbt::Reader& r, const std::vector<Element>& elems, const mbgen::ModelSpec& m, const std::vector<Vals>* cur = nullptr) {
    Op op; const int nb = m.nBodies(); int nu = 0; for (auto& b : m.bodies) nu += mbgen::mobNU(b.type);
    op.elem = r.pick((int)elems.size());
    const ForceSpec& fs = elems[op.elem].spec;
    std::vector<const char*> setters = setterNames(fs.kind);
    int n = (int)setters.size() + 2;                     // parameter setters first, then disable, enable
    int w = r.pick(n + (setters.empty() ? 0 : n));       // parameter setters twice as likely when there are any
    if (w >= n) w = (w - n) % (int)setters.size();
    op.what = w < (int)setters.size() ? OpSetA + w : (w == (int)setters.size() ? OpDisable : OpEnable);
    // value pool
    uint32_t wa = r.w(), wb = r.w();
    Real coef = readCoef(r, 0.1, 100), coef2 = readCoef(r, 0.01, 10), coef3 = readCoef(r, 0.05, 2), rq = r.real(-1.5, 1.5), rf = r.real(-10, 10), lo = r.real(-1, 1), width = r.real(0, 1.5), zh = r.real(-3, 3);
    uint32_t wBounds = r.w();
    Vec3 v1 = mbgen::readVec3(r, -10, 10), v2 = mbgen::readVec3(r, -10, 10), st = mbgen::readVec3(r, -0.8, 0.8);
    Rotation R = mbgen::readRotation(r);
    Vec6 c6; for (int i = 0; i < 6; ++i) c6[i] = readCoef(r, 0.05, 100);
    uint32_t wv = r.w(), wm = r.w();
    op.body = int(wa % uint32_t(nb + 1)); op.flag = (wb & 1u) != 0;
    std::ostringstream nm; nm.precision(17);
    if (!op.isParam()) { nm << (op.what == OpDisable ? "disable" : "enable"); op.name = nm.str(); return op; }
    const int si = op.what - OpSetA;
    const bool structured = cur != nullptr && (wm & 1u) != 0; const int mode = int((wm >> 1) % 840u), comp = int((wm >> 12) % 6u);
    const Vals* c = cur ? &(*cur)[op.elem] : nullptr;
    std::vector<int> mobAny; for (int i = 0; i < nb; ++i) if (mbgen::mobNU(m.bodies[i].type) > 0) mobAny.push_back(i + 1);
    // ---- 1. fresh random value
    switch (fs.kind) {
        case Gravity:
            if (si == 0) op.a = (wb & 7u) == 7u ? 0 : v1.norm();
            else if (si == 1) op.v = v1.norm() > 0 ? v1 : Vec3(0, 0, 1);
            else if (si == 2) op.a = zh;
            else if (si == 4) op.v = (wb & 7u) == 7u ? Vec3(0) : v1;
            break;
        case MobilityLinearSpring: op.a = si == 0 ? coef : rq; break;
        case MobilityLinearDamper: op.a = coef2; break;
        case MobilityConstantForce: case MobilityDiscreteForce: op.a = rf; break;
        case MobilityLinearStop:
            if (si == 0) { switch (wBounds % 8u) { case 1: op.a = -Infinity; op.b = lo; break; case 2: op.a = lo; op.b = Infinity; break; case 3: op.a = -Infinity; op.b = Infinity; break; case 4: op.a = op.b = lo; break;
                                                   default: op.a = lo - 0.5 * width; op.b = lo + 0.5 * width; break; } }
            else { op.a = coef; op.b = coef3; }
            break;
        case DiscreteForces:
            if (si == 0) { if (mobAny.empty()) { op.body = 0; op.coord = 0; } else { op.body = mobAny[wa % mobAny.size()]; op.coord = int((wa >> 8) % uint32_t(mbgen::mobNU(m.bodies[op.body - 1].type))); } op.a = rf; }
            else if (si == 1) { op.v = v1; op.v2 = v2; }
            else if (si == 2) { op.v = st; op.v2 = v2; }
            else if (si == 3) { if ((wb & 7u) != 7u) { op.vecU.resize(nu); pbt::Seg sg; for (int i = 0; i < nu; ++i) sg.push_back(wv * 2654435761u + 40503u * (i + 1) * (wb | 1u)); pbt::Reader q(sg); for (int i = 0; i < nu; ++i) op.vecU[i] = q.real(-10, 10); } }
            else if (si == 4) { if ((wb & 7u) != 7u) { op.vecB.resize(nb + 1); pbt::Seg sg; for (int i = 0; i < 6 * (nb + 1); ++i) sg.push_back(wv * 2246822519u + 3266489917u * (i + 1) * (wb | 1u)); pbt::Reader q(sg);
                                                      for (int i = 0; i <= nb; ++i) { Vec3 a, b; for (int j = 0; j < 3; ++j) { a[j] = q.real(-10, 10); } for (int j = 0; j < 3; ++j) { b[j] = q.real(-10, 10); } op.vecB[i] = SpatialVec(a, b); } } }
            break;
        case LinearBushing:
            if (si <= 1) op.v6 = c6; else op.X = (wb & 7u) == 7u ? Transform() : Transform(R, st);
            break;
        default: break;
    }
    // ---- 2. structured value derived from the current one (documented domains are preserved: coefficients stay >= 0, qLow <= qHigh)
    if (structured) {
        nm << "[derived from current, mode " << mode % 8 << "] ";
        switch (fs.kind) {
            case Gravity:
                if (si == 0) op.a = deriveScalar(c->gmag, op.a, mode, false);
                else if (si == 1) op.v = deriveVec3(c->down, op.v, mode % 4 == 0 ? 0 : (mode % 4 == 1 ? 1 : mode % 4 == 2 ? 2 : 3), comp);        // directions: same / negated / permuted / one sign flipped
                else if (si == 2) op.a = deriveScalar(c->zeroHeight, op.a, mode, true);
                else if (si == 3) { if (op.body != 0) op.flag = (mode & 1) ? !c->excluded[op.body] : (bool)c->excluded[op.body]; }          // toggle / same
                else { Vec3 base = c->gvec; op.v = deriveVec3(base, op.v.norm() > 0 ? op.v : Vec3(1, 2, 3), mode, comp); }
                break;
            case MobilityLinearSpring: op.a = si == 0 ? deriveScalar(c->k, op.a, mode, false) : deriveScalar(c->x0, op.a, mode, true); break;
            case MobilityLinearDamper: op.a = deriveScalar(c->c, op.a, mode, false); break;
            case MobilityConstantForce: case MobilityDiscreteForce: op.a = deriveScalar(c->f, op.a, mode, true); break;
            case MobilityLinearStop:
                if (si == 0) { Real flo = op.a, fhi = op.b; op.a = c->qlo; op.b = c->qhi;
                    switch (mode % 4) { case 1: op.a = std::min(flo, c->qhi); break;                    // only the lower bound changes
                                        case 2: op.b = std::max(fhi, c->qlo); break;                    // only the upper bound changes
                                        case 3: if (std::isfinite(c->qlo) && std::isfinite(c->qhi)) { op.a = c->qlo + 0.25; op.b = c->qhi + 0.25; } break;   // both shifted
                                        default: break; } }                                             // the same bounds again
                else { Real fk = op.a, fd = op.b; op.a = c->k; op.b = c->d;
                    switch (mode % 4) { case 1: op.a = fk; break; case 2: op.b = fd; break; case 3: op.a = 2 * c->k; op.b = 0.5 * c->d; break; default: break; } }
                break;
            case DiscreteForces:
                if (si == 0) { if (op.body != 0 && c->mobF.size()) { int u0 = 0; for (int i = 1; i < op.body; ++i) u0 += mbgen::mobNU(m.bodies[i - 1].type); op.a = deriveScalar(c->mobF[u0 + op.coord], op.a, mode, true); } }
                else if (si == 1) { if (c->bodyF.size()) { if (mode & 8) op.v = deriveVec3(c->bodyF[op.body][0], op.v, mode, comp); else op.v = c->bodyF[op.body][0]; op.v2 = deriveVec3(c->bodyF[op.body][1], op.v2, mode / 16, comp); } }
                else if (si == 3) { if (c->mobF.size() == nu && nu > 0) { Vector f = c->mobF; switch (mode % 4) { case 1: f *= -1.0; break; case 2: f *= 2.0; break; case 3: f[comp % nu] = op.vecU.size() ? op.vecU[comp % nu] : 1.0; break; default: break; } op.vecU = f; } }
                else if (si == 4) { if (c->bodyF.size() == nb + 1) { Vector_<SpatialVec> F = c->bodyF; switch (mode % 4) { case 1: F *= -1.0; break; case 2: F *= 0.5; break; case 3: F[comp % (nb + 1)][1] = deriveVec3(F[comp % (nb + 1)][1], v2, mode / 4, comp); break; default: break; } op.vecB = F; } }
                break;
            case LinearBushing:
                if (si == 0) op.v6 = deriveVec6(c->bk, op.v6, mode, comp);
                else if (si == 1) op.v6 = deriveVec6(c->bc, op.v6, mode, comp);
                else { const Transform& X = si == 2 ? c->X1 : c->X2;
                    switch (mode % 4) { case 1: op.X = Transform(X.R(), op.X.p()); break;             // only the origin moves
                                        case 2: op.X = Transform(op.X.R(), X.p()); break;             // only the orientation changes
                                        case 3: op.X = Transform(X.R(), -X.p()); break;               // origin mirrored
                                        default: op.X = X; break; } }                                 // the same frame again
                break;
            default: break;
        }
    }
    // ---- 3. name
    nm << kindName(fs.kind) << "::" << setters[si] << "(";
    switch (fs.kind) {
        case Gravity: if (si == 0 || si == 2) nm << op.a; else if (si == 3) nm << "body " << op.body << ", " << op.flag; else nm << op.v; break;
        case MobilityLinearSpring: case MobilityLinearDamper: case MobilityConstantForce: case MobilityDiscreteForce: nm << op.a; break;
        case MobilityLinearStop: nm << op.a << ", " << op.b; break;
        case DiscreteForces:
            if (si == 0) nm << "mobod " << op.body << ", u#" << op.coord << ", " << op.a;
            else if (si == 1) nm << "body " << op.body << ", moment " << op.v << ", force " << op.v2;
            else if (si == 2) nm << "body " << op.body << ", point " << op.v << ", force " << op.v2;
            else if (si == 3) nm << op.vecU; else if (si == 4) nm << op.vecB;
            break;
        case LinearBushing: if (si <= 1) nm << op.v6; else nm << "p=" << op.X.p() << " R(quat)=" << op.X.R().convertRotationToQuaternion().asVec4(); break;
        default: break;
    }
    nm << ")"; op.name = nm.str(); op.structured = structured;
    return op;
}

// Perform the op on the State through the public setter and update the model `v`.
// Returns true if the documented value actually changes (same-value calls are legal and happen).
inline bool applyOp(const mbgen::Built& m, State& s, const Element& e, Vals& v, const Op& op) {
    const ForceSpec& fs = e.spec; const int nb = (int)m.mb.size() - 1;
    if (op.what == OpDisable) { bool ch = !v.disabled; e.force.disable(s); v.disabled = true; return ch; }
    if (op.what == OpEnable) { bool ch = v.disabled; e.force.enable(s); v.disabled = false; return ch; }
    const int si = op.what - OpSetA; bool ch = true;
    switch (fs.kind) {
        case Gravity:
            if (si == 0) { ch = v.gmag != op.a; e.grav.setMagnitude(s, op.a); v.gmag = op.a; v.gvec = v.gmag * v.down; }
            else if (si == 1) { UnitVec3 d(op.v); ch = !(v.down == d.asVec3()); e.grav.setDownDirection(s, d); v.down = d.asVec3(); v.gvec = v.gmag * v.down; }
            else if (si == 2) { ch = v.zeroHeight != op.a; e.grav.setZeroHeight(s, op.a); v.zeroHeight = op.a; }
            else if (si == 3) { e.grav.setBodyIsExcluded(s, MobilizedBodyIndex(op.body), op.flag); ch = false; if (op.body != 0) { ch = v.excluded[op.body] != op.flag; v.excluded[op.body] = op.flag; } }   // Ground: documented as ignored
            else { e.grav.setGravityVector(s, op.v); Real g = op.v.norm(); Vec3 d = g > 0 ? Vec3(op.v / g) : v.down; ch = g != v.gmag || !(d == v.down); v.gmag = g; v.down = d; v.gvec = g > 0 ? op.v : Vec3(0); }   // zero vector: only the magnitude changes (documented)
            break;
        case MobilityLinearSpring: if (si == 0) { ch = v.k != op.a; e.mls.setStiffness(s, op.a); v.k = op.a; } else { ch = v.x0 != op.a; e.mls.setQZero(s, op.a); v.x0 = op.a; } break;
        case MobilityLinearDamper: ch = v.c != op.a; e.mld.setDamping(s, op.a); v.c = op.a; break;
        case MobilityConstantForce: ch = v.f != op.a; e.mcf.setForce(s, op.a); v.f = op.a; break;
        case MobilityDiscreteForce: ch = v.f != op.a; e.mdf.setMobilityForce(s, op.a); v.f = op.a; break;
        case MobilityLinearStop:
            if (si == 0) { ch = v.qlo != op.a || v.qhi != op.b; e.stop.setBounds(s, op.a, op.b); v.qlo = op.a; v.qhi = op.b; }
            else { ch = v.k != op.a || v.d != op.b; e.stop.setMaterialProperties(s, op.a, op.b); v.k = op.a; v.d = op.b; }
            break;
        case DiscreteForces: {
            const int nu = s.getNU();
            if (si == 0) { if (op.body == 0) { ch = false; break; } const MobilizedBody& mb = m.mb[op.body]; e.disc.setOneMobilityForce(s, mb, MobilizerUIndex(op.coord), op.a);
                           if (v.mobF.size() == 0) { v.mobF.resize(nu); v.mobF = 0; } v.mobF[(int)mb.getFirstUIndex(s) + op.coord] = op.a; }
            else if (si == 1) { e.disc.setOneBodyForce(s, m.mb[op.body], SpatialVec(op.v, op.v2)); if (v.bodyF.size() == 0) { v.bodyF.resize(nb + 1); v.bodyF = SpatialVec(Vec3(0), Vec3(0)); } v.bodyF[op.body] = SpatialVec(op.v, op.v2); }
            else if (si == 2) { m.sys.realize(s, Stage::Position);        // documented precondition of addForceToBodyPoint
                                const Rotation& R = m.mb[op.body].getBodyRotation(s); Vec3 arm = R * op.v;
                                e.disc.addForceToBodyPoint(s, m.mb[op.body], op.v, op.v2);
                                if (v.bodyF.size() == 0) { v.bodyF.resize(nb + 1); v.bodyF = SpatialVec(Vec3(0), Vec3(0)); } v.bodyF[op.body] += SpatialVec(arm % op.v2, op.v2); }
            else if (si == 3) { e.disc.setAllMobilityForces(s, op.vecU); v.mobF = op.vecU; }
            else if (si == 4) { e.disc.setAllBodyForces(s, op.vecB); v.bodyF = op.vecB; }
            else if (si == 5) { e.disc.clearAllMobilityForces(s); v.mobF.resize(0); }
            else if (si == 6) { e.disc.clearAllBodyForces(s); v.bodyF.resize(0); }
            else { e.disc.clearAllForces(s); v.mobF.resize(0); v.bodyF.resize(0); }
            break; }
        case LinearBushing:
            if (si == 0) { ch = !(v.bk == op.v6); e.bush.setStiffness(s, op.v6); v.bk = op.v6; }
            else if (si == 1) { ch = !(v.bc == op.v6); e.bush.setDamping(s, op.v6); v.bc = op.v6; }
            else if (si == 2) { e.bush.setFrameOnBody1(s, op.X); v.X1 = op.X; }
            else { e.bush.setFrameOnBody2(s, op.X); v.X2 = op.X; }
            break;
        default: ch = false; break;
    }
    return ch;
}

// Give a (fresh) State all state-level values of one element through the same public setters (canonical order).
inline void applyVals(const mbgen::Built& m, State& s, const Element& e, const Vals& v) {
    const ForceSpec& fs = e.spec; const int nb = (int)m.mb.size() - 1;
    switch (fs.kind) {
        case Gravity: e.grav.setDownDirection(s, UnitVec3(v.down, true)); e.grav.setMagnitude(s, v.gmag); e.grav.setZeroHeight(s, v.zeroHeight);
                      for (int i = 1; i <= nb; ++i) e.grav.setBodyIsExcluded(s, MobilizedBodyIndex(i), v.excluded[i]); break;
        case MobilityLinearSpring: e.mls.setStiffness(s, v.k); e.mls.setQZero(s, v.x0); break;
        case MobilityLinearDamper: e.mld.setDamping(s, v.c); break;
        case MobilityConstantForce: e.mcf.setForce(s, v.f); break;
        case MobilityDiscreteForce: e.mdf.setMobilityForce(s, v.f); break;
        case MobilityLinearStop: e.stop.setBounds(s, v.qlo, v.qhi); e.stop.setMaterialProperties(s, v.k, v.d); break;
        case DiscreteForces: e.disc.setAllMobilityForces(s, v.mobF); e.disc.setAllBodyForces(s, v.bodyF); break;
        case LinearBushing: e.bush.setFrameOnBody1(s, v.X1); e.bush.setFrameOnBody2(s, v.X2); e.bush.setStiffness(s, v.bk); e.bush.setDamping(s, v.bc); break;
        default: break;
    }
    if (v.disabled) e.force.disable(s); else e.force.enable(s);
}

// ------------------------------------------------------------------ reported kinematics
struct Kin {
    int nb = 0, nu = 0;                                   // nb = number of generated bodies (Ground excluded)
    std::vector<Transform> X; std::vector<SpatialVec> V;  // [0..nb], 0 = Ground
    std::vector<Real> mass; std::vector<Vec3> com;        // from the generator's BodySpec (inputs, not library outputs)
    std::vector<int> firstU; std::vector<std::vector<Real>> q, u, qdot;   // per mobilizer
    Vector uAll;
    Vec3 station(int b, const Vec3& s) const { return X[b].p() + X[b].R() * s; }
    Vec3 stationVel(int b, const Vec3& s) const { return V[b][1] + V[b][0] % (X[b].R() * s); }
};
// state must be realized to Velocity (or higher)
inline Kin snapshot(const mbgen::Built& m, const mbgen::ModelSpec& ms, const State& s) {
    Kin k; k.nb = ms.nBodies(); k.nu = s.getNU(); k.uAll = s.getU();
    k.X.resize(k.nb + 1); k.V.resize(k.nb + 1); k.mass.assign(k.nb + 1, 0); k.com.assign(k.nb + 1, Vec3(0)); k.firstU.assign(k.nb + 1, 0); k.q.resize(k.nb + 1); k.u.resize(k.nb + 1); k.qdot.resize(k.nb + 1);
    for (int b = 0; b <= k.nb; ++b) {
        const MobilizedBody& mb = m.mb[b]; k.X[b] = mb.getBodyTransform(s); k.V[b] = mb.getBodyVelocity(s);
        if (b == 0) continue;
        k.mass[b] = ms.bodies[b - 1].mass; k.com[b] = ms.bodies[b - 1].com; k.firstU[b] = (int)mb.getFirstUIndex(s);
        int nq = mb.getNumQ(s), nu = mb.getNumU(s);
        for (int i = 0; i < nq; ++i) { k.q[b].push_back(mb.getOneQ(s, i)); k.qdot[b].push_back(mb.getOneQDot(s, i)); }
        for (int i = 0; i < nu; ++i) k.u[b].push_back(mb.getOneU(s, i));
    }
    return k;
}

// ------------------------------------------------------------------ documented laws
struct Applied {
    Vector_<SpatialVec> body; Vector mob; Real pe = 0;   // accumulated; body forces at the body ORIGIN, in Ground
    Real scale = 0;                                      // accumulated magnitude (|force|*(1+arm) + |moment| + |generalized force| + |pe terms|) for tolerances
    Real peScale = 0;
    bool skip = false; std::string skipWhy;              // documented precondition not met in this state (not judged)
    std::vector<std::string> classes;                    // regime labels (stop engaged, clamped, ...)
    void reset(int nb, int nu) { body.resize(nb + 1); body = SpatialVec(Vec3(0), Vec3(0)); mob.resize(nu); mob = 0; pe = 0; scale = 0; peScale = 0; skip = false; skipWhy.clear(); classes.clear(); }
    void pointForce(const Kin& k, int b, const Vec3& stationB, const Vec3& F) { Vec3 arm = k.X[b].R() * stationB; body[b] += SpatialVec(arm % F, F); scale += F.norm() * (1 + arm.norm()); }
    void addPe(Real e) { pe += e; peScale += std::abs(e); }
};

// body-fixed X-Y-Z angles of R = Rx(a) Ry(b) Rz(c), b in [-pi/2, pi/2]
inline Vec3 bodyXYZ(const Mat33& R) {
    Real sb = std::max(-1.0, std::min(1.0, R(0, 2)));
    return Vec3(std::atan2(-R(1, 2), R(2, 2)), std::asin(sb), std::atan2(-R(0, 1), R(0, 0)));
}
// angular velocity of M in F expressed in M = H(q) * qdot for body-fixed X-Y-Z angles: columns Rz^T Ry^T x, Rz^T y, z
inline Mat33 bodyXYZHinge(const Vec3& q) {
    Real c1 = std::cos(q[1]), s1 = std::sin(q[1]), c2 = std::cos(q[2]), s2 = std::sin(q[2]);
    Mat33 H(0);
    H(0, 0) = c1 * c2;  H(0, 1) = s2;  H(0, 2) = 0;
    H(1, 0) = -c1 * s2; H(1, 1) = c2;  H(1, 2) = 0;
    H(2, 0) = s1;       H(2, 1) = 0;   H(2, 2) = 1;
    return H;
}

// Add the documented contribution of ONE enabled element at the reported kinematics. Does nothing for a disabled one.
// Bushing details are returned through the optional pointers (inferred q, qdot, generalized force f).
inline void refLaw(const Element& e, const Vals& v, const Kin& k, Applied& out, Vec6* bushQ = nullptr, Vec6* bushQDot = nullptr, Vec6* bushF = nullptr) {
    if (v.disabled) return;
    const ForceSpec& fs = e.spec;
    switch (fs.kind) {
        case Gravity:   // m g d at the mass centre of every non-excluded body; pe = m g (p.(-d) - hz)
            for (int b = 1; b <= k.nb; ++b) { if (v.excluded[b]) continue; out.pointForce(k, b, k.com[b], k.mass[b] * v.gmag * v.down);
                Real h = -(~v.down * k.station(b, k.com[b])); out.addPe(k.mass[b] * v.gmag * h); out.addPe(-k.mass[b] * v.gmag * v.zeroHeight); }
            break;
        case UniformGravity: {   // m g at every body's mass centre; pe zero at height zeroHeight (measured along -g)
            Real g = fs.vec.norm();
            for (int b = 1; b <= k.nb; ++b) { out.pointForce(k, b, k.com[b], k.mass[b] * fs.vec); out.addPe(-k.mass[b] * (~fs.vec * k.station(b, k.com[b]))); out.addPe(-k.mass[b] * g * fs.zeroHeight); }
            break; }
        case TwoPointLinearSpring: case TwoPointLinearDamper: case TwoPointConstantForce: {
            Vec3 p1 = k.station(fs.b1, fs.s1), p2 = k.station(fs.b2, fs.s2), r = p2 - p1; Real x = r.norm();
            if (x < 1e-3) { out.skip = true; out.skipWhy = "twopoint-coincident"; return; }     // documented error
            Vec3 d = r / x; Real f;      // f > 0: point1 is pulled toward point2 (tension)
            if (fs.kind == TwoPointLinearSpring) { f = fs.k * (x - fs.x0); out.addPe(0.5 * fs.k * (x - fs.x0) * (x - fs.x0)); }
            else if (fs.kind == TwoPointLinearDamper) { Real xdot = ~d * (k.stationVel(fs.b2, fs.s2) - k.stationVel(fs.b1, fs.s1)); f = fs.c * xdot; }   // opposes the rate of separation
            else f = -fs.f;              // positive constant force separates the points
            out.pointForce(k, fs.b1, fs.s1, f * d); out.pointForce(k, fs.b2, fs.s2, -f * d);
            out.scale += std::abs(f) / x * 1e-3;   // direction conditioning
            break; }
        case ConstantForce: out.pointForce(k, fs.b1, fs.s1, fs.vec); break;
        case ConstantTorque: out.body[fs.b1][0] += fs.vec; out.scale += fs.vec.norm(); break;
        case GlobalDamper: for (int i = 0; i < k.nu; ++i) { out.mob[i] += -fs.c * k.uAll[i]; out.scale += std::abs(fs.c * k.uAll[i]); } break;
        case MobilityLinearSpring: { Real q = k.q[fs.mob][fs.coord]; Real f = -v.k * (q - v.x0); out.mob[k.firstU[fs.mob] + fs.coord] += f; out.scale += std::abs(f); out.addPe(0.5 * v.k * (q - v.x0) * (q - v.x0)); break; }
        case MobilityLinearDamper: { Real f = -v.c * k.u[fs.mob][fs.coord]; out.mob[k.firstU[fs.mob] + fs.coord] += f; out.scale += std::abs(f); break; }
        case MobilityConstantForce: case MobilityDiscreteForce: out.mob[k.firstU[fs.mob] + fs.coord] += v.f; out.scale += std::abs(v.f); break;
        case MobilityLinearStop: {
            Real q = k.q[fs.mob][fs.coord], qd = k.qdot[fs.mob][fs.coord], f = 0;
            if (q > v.qhi) { Real x = q - v.qhi, raw = -v.k * x * (1 + v.d * qd); f = std::min(0.0, raw); out.addPe(0.5 * v.k * x * x); out.classes.push_back(raw > 0 ? "stop:upper-clamped" : "stop:upper"); out.scale += std::abs(raw); }
            else if (q < v.qlo) { Real x = q - v.qlo, raw = -v.k * x * (1 - v.d * qd); f = std::max(0.0, raw); out.addPe(0.5 * v.k * x * x); out.classes.push_back(raw < 0 ? "stop:lower-clamped" : "stop:lower"); out.scale += std::abs(raw); }
            else out.classes.push_back("stop:inside");
            out.mob[k.firstU[fs.mob] + fs.coord] += f;
            break; }
        case DiscreteForces:
            if (v.mobF.size()) for (int i = 0; i < k.nu; ++i) { out.mob[i] += v.mobF[i]; out.scale += std::abs(v.mobF[i]); }
            if (v.bodyF.size()) for (int b = 0; b <= k.nb; ++b) { out.body[b] += v.bodyF[b]; out.scale += v.bodyF[b][0].norm() + v.bodyF[b][1].norm(); }
            break;
        case LinearBushing: {
            // frames in Ground, relative pose and velocity (taken in F), inferred coordinates
            Transform X_GF = k.X[fs.b1] * v.X1, X_GM = k.X[fs.b2] * v.X2;
            Rotation R_FG = ~X_GF.R(); Mat33 R_FM = R_FG.asMat33() * X_GM.R().asMat33(); Vec3 p_FM_G = X_GM.p() - X_GF.p(), p_FM = R_FG * p_FM_G;
            Vec3 ang = bodyXYZ(R_FM);
            if (std::abs(std::cos(ang[1])) < 0.15) { out.skip = true; out.skipWhy = "bushing-near-singular"; return; }   // documented singular configuration
            Vec3 wF = k.V[fs.b1][0], vF = k.stationVel(fs.b1, v.X1.p()), wM = k.V[fs.b2][0], vM = k.stationVel(fs.b2, v.X2.p());
            Vec3 w_FM_F = R_FG * (wM - wF), v_FM_F = R_FG * (vM - vF - wF % p_FM_G);
            Mat33 R_MF = ~R_FM; Vec3 w_FM_M = R_MF * w_FM_F;
            Mat33 H = bodyXYZHinge(ang), Hinv = H.invert();
            Vec3 angDot = Hinv * w_FM_M;
            Vec6 q, qd, f; for (int i = 0; i < 3; ++i) { q[i] = ang[i]; q[3 + i] = p_FM[i]; qd[i] = angDot[i]; qd[3 + i] = v_FM_F[i]; }
            for (int i = 0; i < 6; ++i) { f[i] = -(v.bk[i] * q[i] + v.bc[i] * qd[i]); out.addPe(0.5 * v.bk[i] * q[i] * q[i]); }
            if (bushQ) *bushQ = q; if (bushQDot) *bushQDot = qd; if (bushF) *bushF = f;
            // virtual work: moment m (in M) with m . w_FM_M = f_rot . angDot  =>  m = H^-T f_rot ; force f_trans (in F) at M's origin on body 2; the opposite at the coincident point of body 1
            Vec3 fr(f[0], f[1], f[2]), ft(f[3], f[4], f[5]);
            Vec3 mM = ~Hinv * fr, mG = X_GM.R() * mM, fG = X_GF.R() * ft;
            Vec3 arm2 = X_GM.p() - k.X[fs.b2].p(), arm1 = X_GM.p() - k.X[fs.b1].p();
            out.body[fs.b2] += SpatialVec(mG + arm2 % fG, fG);
            out.body[fs.b1] -= SpatialVec(mG + arm1 % fG, fG);
            Real amp = 1 / (std::cos(ang[1]) * std::cos(ang[1]));
            out.scale += (mG.norm() + fG.norm() * (1 + arm1.norm() + arm2.norm()) + v.bc.norm() * (wM.norm() + wF.norm() + vM.norm() + vF.norm()) + v.bk.norm() * (4 + p_FM.norm())) * amp;
            break; }
    }
}

inline void describeVals(std::ostream& o, const Element& e, const Vals& v) {
    o.precision(17); const ForceSpec& fs = e.spec; o << kindName(fs.kind) << (v.disabled ? " DISABLED" : "");
    switch (fs.kind) {
        case Gravity: o << " down=" << v.down << " g=" << v.gmag << " hz=" << v.zeroHeight << " excluded="; for (size_t i = 1; i < v.excluded.size(); ++i) o << (v.excluded[i] ? 1 : 0); break;
        case MobilityLinearSpring: o << " k=" << v.k << " q0=" << v.x0; break;
        case MobilityLinearDamper: o << " c=" << v.c; break;
        case MobilityConstantForce: case MobilityDiscreteForce: o << " f=" << v.f; break;
        case MobilityLinearStop: o << " k=" << v.k << " d=" << v.d << " bounds=[" << v.qlo << "," << v.qhi << "]"; break;
        case DiscreteForces: o << " mobF=" << v.mobF << " bodyF=" << v.bodyF; break;
        case LinearBushing: o << " k=" << v.bk << " c=" << v.bc << " X1.p=" << v.X1.p() << " X2.p=" << v.X2.p(); break;
        default: break;
    }
}

} // namespace forcegen
