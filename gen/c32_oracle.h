// c32_oracle.h -- reference recognisers and byte-level oracles of property C32
// (text / serialization round trips). Shared by props/C32.cpp (rapidcheck harness,
// also the replay tool for fuzz failures) and the libFuzzer targets fuzz/C32_*.cpp.
//
// The recognisers are written from the documentation of SimTK::String
// ("Recognizes NaN, [-]Inf, [-]Infinity (in any case) as well as whatever
// operator>>() accepts ... ignoring leading and trailing whitespace ... failure to
// consume the entire string" is an error) and from the C++ standard's description of
// operator>>(arithmetic) in the classic locale: decimal literals only, out-of-range
// values set failbit. Values come from strtod/strtof/own big-integer arithmetic.
#pragma once
#include "pbt.h"
#include "SimTKcommon.h"
#include <climits>
#include <complex>
#include <cstring>
#include <limits>
#include <sstream>
#include <string>
#include <type_traits>
#include <vector>

// lazy variant of ctx.check(): the message expression is evaluated only on failure (the checks sit in per-value loops)
#define PBT_CK(ctx, cond, ...) ((cond) ? true : ((ctx).fail(__VA_ARGS__), false))

namespace c32 {

static const int kK = 16;      // words per tape segment of the C32 harness

inline bool isWs(unsigned char c) { return c == ' ' || c == '\t' || c == '\n' || c == '\v' || c == '\f' || c == '\r'; }
inline bool isDig(char c) { return c >= '0' && c <= '9'; }
inline std::string trim(const std::string& s) {
    size_t a = 0, b = s.size();
    while (a < b && isWs((unsigned char)s[a])) ++a;
    while (b > a && isWs((unsigned char)s[b - 1])) --b;
    return s.substr(a, b - a);
}
inline std::string lower(std::string s) { for (auto& c : s) if (c >= 'A' && c <= 'Z') c = char(c - 'A' + 'a'); return s; }
inline std::string show(const std::string& s) {   // printable rendering of arbitrary bytes
    std::string o = "\"";
    for (unsigned char c : s) { if (c == '\\' || c == '"') { o += '\\'; o += char(c); } else if (c >= 0x20 && c < 0x7f) o += char(c); else { char b[8]; snprintf(b, sizeof b, "\\x%02x", c); o += b; } }
    return o + "\"";
}
template <class F> inline bool sameBits(F a, F b) { return (std::isnan(a) && std::isnan(b)) || std::memcmp(&a, &b, sizeof(F)) == 0; }

enum Verdict { Accept, Reject, Unjudged };

// length of the longest prefix of s (starting at 0) that is a complete decimal floating literal
//   [+-]? ( digits+ [ '.' digits* ] | '.' digits+ ) ( [eE] [+-]? digits+ )?        (0 if none)
inline size_t scanFloat(const std::string& s) {
    size_t i = 0, n = s.size(), nd = 0;
    if (i < n && (s[i] == '+' || s[i] == '-')) ++i;
    while (i < n && isDig(s[i])) { ++i; ++nd; }
    if (i < n && s[i] == '.') { size_t j = i + 1, nf = 0; while (j < n && isDig(s[j])) { ++j; ++nf; } if (nd + nf == 0) return 0; i = j; nd += nf; }
    if (nd == 0) return 0;
    size_t end = i;
    if (i < n && (s[i] == 'e' || s[i] == 'E')) { size_t j = i + 1; if (j < n && (s[j] == '+' || s[j] == '-')) ++j; if (j < n && isDig(s[j])) { while (j < n && isDig(s[j])) ++j; end = j; } }
    return end;
}
// length of the longest prefix that is a decimal integer literal [+-]?digits+ (0 if none)
inline size_t scanInt(const std::string& s) {
    size_t i = 0, n = s.size();
    if (i < n && (s[i] == '+' || s[i] == '-')) ++i;
    size_t d = i; while (i < n && isDig(s[i])) ++i;
    return i == d ? 0 : i;
}
// magnitude of an integer literal, saturating at 2^100
inline unsigned __int128 magnitude(const std::string& lit) {
    unsigned __int128 m = 0, cap = (unsigned __int128)1 << 100;
    for (char c : lit) if (isDig(c)) { m = m * 10 + unsigned(c - '0'); if (m > cap) m = cap; }
    return m;
}

template <class F> inline F strToF(const char* s);
template <> inline double strToF<double>(const char* s) { return std::strtod(s, nullptr); }
template <> inline float strToF<float>(const char* s) { return std::strtof(s, nullptr); }

template <class F> struct RefFloat {
    Verdict v = Reject; F val = 0;
    bool trailingSite = false;   // a complete literal followed by junk: the class of `string-convert-trailing-garbage`
    bool prefixOverflow = false; F prefixVal = 0;
    const char* cls = "";
};
template <class F> inline RefFloat<F> refFloat(const std::string& raw) {
    RefFloat<F> r; std::string t = lower(trim(raw));
    const F inf = std::numeric_limits<F>::infinity();
    if (t == "nan") { r.v = Accept; r.val = std::numeric_limits<F>::quiet_NaN(); r.cls = "nan"; return r; }
    if (t == "inf" || t == "infinity") { r.v = Accept; r.val = inf; r.cls = "inf"; return r; }
    if (t == "-inf" || t == "-infinity") { r.v = Accept; r.val = -inf; r.cls = "inf"; return r; }
    if (t == "+inf" || t == "+infinity") { r.v = Unjudged; r.val = inf; r.cls = "plus-inf:unjudged"; return r; }   // doc says "[-]Inf" only
    size_t e = scanFloat(t);
    if (e == 0) { r.cls = t.empty() ? "empty" : "no-literal"; return r; }
    F v = strToF<F>(t.substr(0, e).c_str());
    if (e == t.size()) {
        if (std::isinf(v)) { r.cls = "overflow"; return r; }     // out of range: not a value of F (operator>> sets failbit)
        r.v = Accept; r.val = v; r.cls = (v != 0 && std::fabs(v) < std::numeric_limits<F>::min()) ? "literal-subnormal" : "literal"; return r;
    }
    r.trailingSite = true; r.prefixVal = v; r.prefixOverflow = std::isinf(v); r.cls = "literal+junk";
    return r;
}

template <class T> struct RefInt { Verdict v = Reject; T val = 0; const char* cls = ""; };
template <class T> inline RefInt<T> refInt(const std::string& raw) {
    RefInt<T> r; std::string t = trim(raw);
    size_t e = scanInt(t);
    if (e == 0) { r.cls = t.empty() ? "empty" : "no-literal"; return r; }
    if (e != t.size()) { r.cls = "literal+junk"; return r; }
    bool neg = t[0] == '-'; unsigned __int128 m = magnitude(t);
    if (std::is_signed<T>::value) {
        unsigned __int128 mx = (unsigned __int128)std::numeric_limits<T>::max();
        if (neg ? m > mx + 1 : m > mx) { r.cls = "out-of-range"; return r; }
        r.v = Accept; r.val = neg ? (T)(-(__int128)m) : (T)m; r.cls = "literal"; return r;
    }
    if (neg) { r.v = Unjudged; r.cls = "unsigned-negative:unjudged"; return r; }   // operator>> wraps modulo 2^N (strtoul semantics)
    if (m > (unsigned __int128)std::numeric_limits<T>::max()) { r.cls = "out-of-range"; return r; }
    r.v = Accept; r.val = (T)m; r.cls = "literal"; return r;
}

struct RefBool { Verdict v = Reject; bool val = false; bool trailingSite = false; bool prefixAccept = false, prefixVal = false; const char* cls = ""; };
inline RefBool refBool(const std::string& raw) {
    RefBool r; std::string t = lower(trim(raw));
    if (t == "true") { r.v = Accept; r.val = true; r.cls = "word"; return r; }
    if (t == "false") { r.v = Accept; r.val = false; r.cls = "word"; return r; }
    size_t e = scanInt(t);
    if (e == 0) { r.cls = t.empty() ? "empty" : "no-literal"; return r; }
    unsigned __int128 m = magnitude(t.substr(0, e)); bool neg = t[0] == '-';
    bool is01 = m == 0 || (m == 1 && !neg);
    if (e == t.size()) { if (is01) { r.v = Accept; r.val = m == 1; r.cls = "digit"; } else r.cls = "out-of-range"; return r; }
    r.trailingSite = true; r.prefixAccept = is01; r.prefixVal = m == 1; r.cls = "literal+junk";
    return r;
}

// ------------------------------------------------------------------ acceptance oracle: one string, one type
// The `known` test goes through ctx.known() so that exclusions are counted.
static const char* const kTrailing = "string-convert-trailing-garbage";
static const char* const kArrayWs = "readunformatted-array-trailing-whitespace";

template <class F> inline void checkFloatString(const std::string& s, pbt::Ctx& ctx, const char* tn, bool throwPath = true) {
    RefFloat<F> r = refFloat<F>(s);
    F out = (F)12345.678; bool ok = SimTK::String(s).tryConvertTo<F>(out);
    ctx.label(std::string("accept:") + tn + ":" + r.cls);
    bool threw = false; F out2 = 0;
    if (ok || throwPath) { try { SimTK::String(s).convertTo<F>(out2); } catch (const std::exception&) { threw = true; } } else threw = true;
    if (!PBT_CK(ctx, threw == !ok, std::string("convertTo<") + tn + ">(" + show(s) + ") " + (threw ? "threw" : "did not throw") + " although tryConvertTo returned " + (ok ? "true" : "false"))) return;
    if (r.trailingSite && ctx.known(kTrailing)) {
        ctx.label("excluded:trailing-garbage");
        // still demanded: if accepted, the value is that of the literal prefix
        if (ok && !r.prefixOverflow) PBT_CK(ctx, sameBits(out, r.prefixVal), std::string("tryConvertTo<") + tn + ">(" + show(s) + ") accepted with value " + pbt::str(out) + " != value of its literal prefix " + pbt::str(r.prefixVal));
        return;
    }
    if (r.v == Unjudged) { if (ok) PBT_CK(ctx, sameBits(out, r.val), std::string("tryConvertTo<") + tn + ">(" + show(s) + ") = " + pbt::str(out)); return; }
    if (r.v == Accept) {
        if (!PBT_CK(ctx, ok, std::string("tryConvertTo<") + tn + ">(" + show(s) + ") refused a string that denotes the value " + pbt::str(r.val))) return;
        PBT_CK(ctx, sameBits(out, r.val), std::string("tryConvertTo<") + tn + ">(" + show(s) + ") = " + pbt::str(out) + ", reference " + pbt::str(r.val));
    } else {
        PBT_CK(ctx, !ok, std::string("tryConvertTo<") + tn + ">(" + show(s) + ") returned true (value " + pbt::str(out) + ") for a string that is not a " + tn + " literal [" + r.cls + "]");
    }
}
template <class T> inline void checkIntString(const std::string& s, pbt::Ctx& ctx, const char* tn, bool throwPath = true) {
    RefInt<T> r = refInt<T>(s);
    T out = (T)77; bool ok = SimTK::String(s).tryConvertTo<T>(out);
    ctx.label(std::string("accept:int:") + r.cls);
    bool threw = false; T out2 = 0;
    if (ok || throwPath) { try { SimTK::String(s).convertTo<T>(out2); } catch (const std::exception&) { threw = true; } } else threw = true;
    if (!PBT_CK(ctx, threw == !ok, std::string("convertTo<") + tn + ">(" + show(s) + ") throw/no-throw disagrees with tryConvertTo")) return;
    if (r.v == Unjudged) return;
    if (r.v == Accept) {
        if (!PBT_CK(ctx, ok, std::string("tryConvertTo<") + tn + ">(" + show(s) + ") refused a valid literal")) return;
        PBT_CK(ctx, out == r.val, std::string("tryConvertTo<") + tn + ">(" + show(s) + ") = " + pbt::str(+out) + ", reference " + pbt::str(+r.val));
    } else PBT_CK(ctx, !ok, std::string("tryConvertTo<") + tn + ">(" + show(s) + ") returned true (value " + pbt::str(+out) + ") for a string that is not a " + tn + " literal [" + r.cls + "]");
}
inline void checkBoolString(const std::string& s, pbt::Ctx& ctx, bool throwPath = true) {
    RefBool r = refBool(s);
    bool out = false, outB = true; bool ok = SimTK::String(s).tryConvertTo<bool>(out); bool okB = SimTK::String(s).tryConvertTo<bool>(outB);
    ctx.label(std::string("accept:bool:") + r.cls);
    bool threw = false; bool out2 = false;
    if (ok || throwPath) { try { SimTK::String(s).convertTo<bool>(out2); } catch (const std::exception&) { threw = true; } } else threw = true;
    if (!PBT_CK(ctx, threw == !ok && ok == okB, "convertTo<bool>(" + show(s) + ") throw/no-throw disagrees with tryConvertTo")) return;
    if (r.trailingSite && ctx.known(kTrailing)) {
        ctx.label("excluded:trailing-garbage");
        if (ok) PBT_CK(ctx, r.prefixAccept && out == r.prefixVal && outB == r.prefixVal, "tryConvertTo<bool>(" + show(s) + ") accepted with a value different from its literal prefix");
        return;
    }
    if (r.v == Accept) {
        if (!PBT_CK(ctx, ok, "tryConvertTo<bool>(" + show(s) + ") refused a valid bool literal")) return;
        PBT_CK(ctx, out == r.val && outB == r.val, "tryConvertTo<bool>(" + show(s) + ") gave the wrong value / left the output unset");
    } else PBT_CK(ctx, !ok, "tryConvertTo<bool>(" + show(s) + ") returned true for a string that is not a bool literal [" + std::string(r.cls) + "]");
}

// which: 0 double 1 float 2 bool 3 int 4 unsigned 5 long long 6 unsigned long long 7 short 8 unsigned short 9 long 10 unsigned long
static const int kNumStrTypes = 11;
inline void checkString(int which, const std::string& s, pbt::Ctx& ctx, bool tp = true) {
    switch (which) {
        case 0: checkFloatString<double>(s, ctx, "double", tp); break;
        case 1: checkFloatString<float>(s, ctx, "float", tp); break;
        case 2: checkBoolString(s, ctx, tp); break;
        case 3: checkIntString<int>(s, ctx, "int", tp); break;
        case 4: checkIntString<unsigned>(s, ctx, "unsigned", tp); break;
        case 5: checkIntString<long long>(s, ctx, "long long", tp); break;
        case 6: checkIntString<unsigned long long>(s, ctx, "unsigned long long", tp); break;
        case 7: checkIntString<short>(s, ctx, "short", tp); break;
        case 8: checkIntString<unsigned short>(s, ctx, "unsigned short", tp); break;
        case 9: checkIntString<long>(s, ctx, "long", tp); break;
        default: checkIntString<unsigned long>(s, ctx, "unsigned long", tp); break;
    }
}

// ------------------------------------------------------------------ byte-level oracle 1: bytes -> tryConvertTo<T> for every T
inline void checkStrconvBytes(const std::string& s, pbt::Ctx& ctx) {
    // the throwing path of convertTo<T> (slow under sanitizers) is exercised for one type per input, chosen by the input
    unsigned h = 2166136261u; for (unsigned char c : s) h = (h ^ c) * 16777619u;
    for (int w = 0; w < kNumStrTypes && !ctx.failed; ++w) checkString(w, s, ctx, (int)(h % kNumStrTypes) == w);
    // String / std::string targets take the whole text including white space
    if (!ctx.failed) { SimTK::String o; bool ok = SimTK::String(s).tryConvertTo<SimTK::String>(o); PBT_CK(ctx, ok && std::string(o) == s, "tryConvertTo<String>(" + show(s) + ") must copy the whole string"); }
}

// ------------------------------------------------------------------ byte-level oracle 2: bytes as an unformatted stream
inline std::vector<std::string> tokens(const std::string& s) {
    std::vector<std::string> t; size_t i = 0, n = s.size();
    while (i < n) { while (i < n && isWs((unsigned char)s[i])) ++i; size_t j = i; while (j < n && !isWs((unsigned char)s[j])) ++j; if (j > i) t.push_back(s.substr(i, j - i)); i = j; }
    return t;
}
// reference verdict for one token read as double (tokens never contain white space)
inline void checkUnformattedBytes(const std::string& s, pbt::Ctx& ctx) {
    std::vector<std::string> tk = tokens(s);
    bool hasTrailing = false, hasUnjudged = false; size_t firstBad = tk.size();
    std::vector<double> vals;
    for (size_t i = 0; i < tk.size(); ++i) {
        RefFloat<double> r = refFloat<double>(tk[i]);
        if (r.trailingSite) hasTrailing = true;
        if (r.v != Accept) { if (firstBad == tk.size()) firstBad = i; if (r.v == Unjudged) hasUnjudged = true; }   // unjudged tokens: no verdict on the stream
        vals.push_back(r.val);
    }
    bool excluded = hasTrailing && ctx.known(kTrailing);
    if (excluded) ctx.label("excluded:trailing-garbage");
    if (hasUnjudged) { ctx.label("unf:unjudged-token"); excluded = true; }
    ctx.label(tk.empty() ? "unf:no-token" : firstBad == tk.size() ? "unf:all-valid" : "unf:some-invalid");
    // (a) scalar: first token
    { std::istringstream in(s); double d = -7; bool ok = SimTK::readUnformatted(in, d);
      if (!excluded) {
        bool want = !tk.empty() && firstBad > 0;
        if (!PBT_CK(ctx, ok == want, "readUnformatted<double> on stream " + show(s) + " returned " + (ok ? "true" : "false") + ", reference " + (want ? "true" : "false"))) return;
        if (ok && !PBT_CK(ctx, sameBits(d, vals[0]), "readUnformatted<double> on " + show(s) + " = " + pbt::str(d) + ", reference " + pbt::str(vals[0]))) return;
        if (!ok && !PBT_CK(ctx, in.fail(), "readUnformatted<double> returned false without setting failbit")) return;
      } }
    // (b) Vec<3>: exactly the first three tokens, failure if fewer / invalid
    { std::istringstream in(s); SimTK::Vec3 v(-7); bool ok = SimTK::readUnformatted(in, v);
      if (!excluded) {
        bool want = tk.size() >= 3 && firstBad >= 3;
        if (!PBT_CK(ctx, ok == want, "readUnformatted<Vec3> on stream " + show(s) + " returned " + (ok ? "true" : "false") + ", reference " + (want ? "true" : "false"))) return;
        if (ok) for (int i = 0; i < 3; ++i) if (!PBT_CK(ctx, sameBits(v[i], vals[i]), "readUnformatted<Vec3> element " + std::to_string(i) + " wrong for " + show(s))) return;
        if (ok && tk.size() > 3 && firstBad > 3) { double nx = -7; bool ok2 = SimTK::readUnformatted(in, nx); if (!PBT_CK(ctx, ok2 && sameBits(nx, vals[3]), "token after a Vec3 was not left in the stream for " + show(s))) return; }
      } }
    // (c) Array_<double> / Vector_<double>: all tokens until eof
    { std::istringstream in(s); SimTK::Array_<double> a; a.push_back(-7); bool ok = SimTK::readUnformatted(in, a);
      std::istringstream in2(s); SimTK::Vector_<double> vv(2, -7.0); bool okv = SimTK::readUnformatted(in2, vv);
      // known finding: the variable-length readers look for another token after the last one and fail when only white space follows
      bool trailingWs = !tk.empty() && firstBad == tk.size() && isWs((unsigned char)s.back());
      bool exclC = excluded;
      if (trailingWs && ctx.known(kArrayWs)) { ctx.label("excluded:array-trailing-white-space"); exclC = true; }
      if (!exclC) {
        bool want = firstBad == tk.size();
        if (!PBT_CK(ctx, ok == want && okv == want, "readUnformatted<Array_/Vector_<double>> on " + show(s) + " returned " + (ok ? "true" : "false") + "/" + (okv ? "true" : "false") + ", reference " + (want ? "true" : "false"))) return;
        if (ok) {
            if (!PBT_CK(ctx, (size_t)a.size() == tk.size() && (size_t)vv.size() == tk.size(), "readUnformatted<Array_<double>> read " + std::to_string(a.size()) + " elements from " + std::to_string(tk.size()) + " tokens")) return;
            for (size_t i = 0; i < tk.size(); ++i) if (!PBT_CK(ctx, sameBits(a[(int)i], vals[i]) && sameBits(vv[(int)i], vals[i]), "readUnformatted<Array_<double>> element " + std::to_string(i) + " wrong for " + show(s))) return;
            // accepted => write/read is a fixed point
            std::ostringstream o; SimTK::writeUnformatted(o, a); std::istringstream in3(o.str()); SimTK::Array_<double> b; bool ok3 = SimTK::readUnformatted(in3, b);
            if (!PBT_CK(ctx, ok3 && b.size() == a.size(), "writeUnformatted(Array_) output not readable: " + show(o.str()))) return;
            for (int i = 0; i < a.size(); ++i) if (!PBT_CK(ctx, sameBits(a[i], b[i]), "write/read of Array_<double> changed element " + std::to_string(i))) return;
            std::ostringstream o2; SimTK::writeUnformatted(o2, b); if (!PBT_CK(ctx, o.str() == o2.str(), "writeUnformatted not a fixed point")) return;
        }
      } }
    // (d) String tokens, int tokens, bool tokens: first token only
    if (!tk.empty()) {
        { std::istringstream in(s); SimTK::String t; bool ok = SimTK::readUnformatted(in, t); if (!PBT_CK(ctx, ok && std::string(t) == tk[0], "readUnformatted<String> did not return the first token of " + show(s))) return; }
        { std::istringstream in(s); int iv = -7; bool ok = SimTK::readUnformatted(in, iv); RefInt<int> r = refInt<int>(tk[0]);
          if (r.v != Unjudged) { if (!PBT_CK(ctx, ok == (r.v == Accept), "readUnformatted<int> on " + show(s) + " returned " + (ok ? "true" : "false"))) return; if (ok && !PBT_CK(ctx, iv == r.val, "readUnformatted<int> value wrong for " + show(s))) return; } }
        { std::istringstream in(s); bool bv = false; bool ok = SimTK::readUnformatted(in, bv); RefBool r = refBool(tk[0]);
          if (!(r.trailingSite && ctx.known(kTrailing))) { if (!PBT_CK(ctx, ok == (r.v == Accept), "readUnformatted<bool> on " + show(s) + " returned " + (ok ? "true" : "false"))) return; if (ok && !PBT_CK(ctx, bv == r.val, "readUnformatted<bool> value wrong for " + show(s))) return; } }
    } else {
        std::istringstream in(s); SimTK::String t; bool ok = SimTK::readUnformatted(in, t); if (!PBT_CK(ctx, !ok, "readUnformatted<String> succeeded on a stream without tokens")) return;
    }
}

// ------------------------------------------------------------------ XML: structural snapshot of a document
struct XNode {
    int type = 0;                 // 0 element, 1 text, 2 comment, 3 unknown
    std::string name;             // tag (element) or text/comment/unknown contents
    std::vector<std::pair<std::string, std::string> > attrs;
    std::vector<XNode> kids;
    bool merged = false;          // text made of several adjacent text nodes (see mergeTexts)
};
inline bool operator==(const XNode& a, const XNode& b) { return a.type == b.type && a.name == b.name && a.attrs == b.attrs && a.kids == b.kids; }
inline XNode snapshotNode(SimTK::Xml::Node n);
inline XNode snapshotElement(SimTK::Xml::Element e) {
    XNode x; x.type = 0; x.name = e.getElementTag();
    for (SimTK::Xml::attribute_iterator a = e.attribute_begin(); a != e.attribute_end(); ++a) x.attrs.push_back({std::string(a->getName()), std::string(a->getValue())});
    for (SimTK::Xml::node_iterator p = e.node_begin(); p != e.node_end(); ++p) x.kids.push_back(snapshotNode(*p));
    return x;
}
inline XNode snapshotNode(SimTK::Xml::Node n) {
    using namespace SimTK;
    if (n.getNodeType() == Xml::ElementNode) return snapshotElement(Xml::Element::getAs(n));
    XNode x; x.name = n.getNodeText();
    x.type = n.getNodeType() == Xml::TextNode ? 1 : n.getNodeType() == Xml::CommentNode ? 2 : 3;
    return x;
}
struct XDoc { std::vector<XNode> top; std::string version, encoding; bool standalone = false; };
inline XDoc snapshot(SimTK::Xml::Document& d) {
    XDoc x; for (SimTK::Xml::node_iterator p = d.node_begin(); p != d.node_end(); ++p) x.top.push_back(snapshotNode(*p));
    x.version = d.getXmlVersion(); x.encoding = d.getXmlEncoding(); x.standalone = d.getXmlIsStandalone();
    return x;
}
inline void printNode(const XNode& n, std::ostream& o, int ind = 0) {
    static const char* tn[] = {"elem", "text", "comment", "unknown"};
    o << std::string(ind * 2, ' ') << tn[n.type] << " " << show(n.name);
    for (auto& a : n.attrs) o << " " << show(a.first) << "=" << show(a.second);
    o << "\n"; for (auto& k : n.kids) printNode(k, o, ind + 1);
}
inline std::string condense(const std::string& s) {   // TinyXML "condense": trim, runs of white space -> one space
    std::string o; bool ws = false;
    for (unsigned char c : s) { if (isWs(c)) ws = true; else { if (ws && !o.empty()) o += ' '; ws = false; o += char(c); } }
    return o;
}
inline bool allWs(const std::string& s) { for (unsigned char c : s) if (!isWs(c)) return false; return true; }
// first difference between two snapshots ("" if equal). Text is compared after `condense` when cond is set.
inline std::string diffNodes(const XNode& a, const XNode& b, bool cond, const std::string& path) {
    static const char* tn[] = {"elem", "text", "comment", "unknown"};
    if (a.type != b.type) return path + ": node type " + tn[a.type] + " vs " + tn[b.type];
    if (a.type == 1 && cond) { if (condense(a.name) != condense(b.name)) return path + ": text " + show(a.name) + " vs " + show(b.name) + " (compared condensed)"; }
    else if (a.name != b.name) return path + ": " + (a.type == 0 ? "tag " : "contents ") + show(a.name) + " vs " + show(b.name);
    if (a.attrs.size() != b.attrs.size()) return path + "/" + a.name + ": attribute count " + std::to_string(a.attrs.size()) + " vs " + std::to_string(b.attrs.size());
    for (size_t i = 0; i < a.attrs.size(); ++i) if (a.attrs[i] != b.attrs[i]) return path + "/" + a.name + ": attribute " + show(a.attrs[i].first) + "=" + show(a.attrs[i].second) + " vs " + show(b.attrs[i].first) + "=" + show(b.attrs[i].second);
    if (a.kids.size() != b.kids.size()) return path + "/" + a.name + ": child count " + std::to_string(a.kids.size()) + " vs " + std::to_string(b.kids.size());
    for (size_t i = 0; i < a.kids.size(); ++i) { std::string d = diffNodes(a.kids[i], b.kids[i], cond, path + "/" + a.name + "[" + std::to_string(i) + "]"); if (!d.empty()) return d; }
    return "";
}

// ------------------------------------------------------------------ libFuzzer glue
// A failing fuzz input is saved as a raw-mode tape of the C32 harness (segment 0 = {6, which, 0, size+1}; units = the bytes,
// 4 per word), so `./check C32 --replay <tape>` / the regression tier re-run exactly the same oracle on the same bytes.
inline void fuzzFail(int which, const std::string& bytes, pbt::Ctx& ctx) {
    pbt::Tape t; pbt::Seg g(kK, 0u); g[0] = 6; g[1] = (uint32_t)which; g[2] = 0; g[3] = (uint32_t)bytes.size() + 1; t.push_back(g);
    for (size_t i = 0; i < bytes.size() || t.size() < 2; i += 4 * kK) {
        pbt::Seg u(kK, 0u);
        for (size_t j = 0; j < (size_t)4 * kK && i + j < bytes.size(); ++j) u[j / 4] |= uint32_t((unsigned char)bytes[i + j]) << (8 * (j % 4));
        t.push_back(u);
    }
    std::string dir = pbt::verifDir() + "/replays/C32";
    mkdir((pbt::verifDir() + "/replays").c_str(), 0755); mkdir(dir.c_str(), 0755);
    char name[64]; snprintf(name, sizeof name, "/fuzzfail-%016llx.tape", (unsigned long long)pbt::hashTape(t));
    std::string p = dir + name;
    pbt::writeTape(p, t, "C32", ctx.msg, "fuzz input (" + std::to_string(bytes.size()) + " bytes): " + show(bytes.substr(0, 2000)));
    fprintf(stderr, "FAIL property=C32 tape=%s msg=%s\n", p.c_str(), ctx.msg.substr(0, 1500).c_str());
    fflush(stderr);
    __builtin_trap();
}

} // namespace c32
