// mbgen.h -- random multibody tree models decoded from a pbt tape (DESIGN.md 3.1).
//
// A body/mobilizer unit is one tape segment of mbgen::K words (K = 52).  The
// decoder is total: any words give a legal body (valid inertia by construction,
// parent index modulo existing bodies, coordinates inside the documented
// non-singular domains of the mobilizer).  Word 0 everywhere = simplest choice
// (Pin on the previous body/Ground, identity frames, unit mass).
//
//   mbgen::Options opt;                    // restrict types / sizes per property
//   mbgen::ModelSpec spec = mbgen::decodeModel(tape, firstUnit, nUnits, g0, opt);
//   mbgen::Built m(spec);                  // builds MultibodySystem, realizes Topology+Model
//   m.setState(spec);                      // q,u from the spec (documented domains)
//   spec.describe(os);                     // pretty print for ctx.desc
#pragma once
#include "pbt.h"
#include "Simbody.h"
#include <memory>
#include <sstream>

namespace mbgen {
using namespace SimTK;

const int K = 52;

enum MobType { Pin = 0, Slider, Universal, Cylinder, BendStretch, Planar, Gimbal, Bushing, Ball, Free,
               Translation, Screw, SphericalCoords, Ellipsoid, CantileverFreeBeam, Weld, LineOrientation, FreeLine, NumMobTypes };
inline const char* mobName(int t) {
    static const char* n[] = {"Pin", "Slider", "Universal", "Cylinder", "BendStretch", "Planar", "Gimbal", "Bushing", "Ball", "Free",
                              "Translation", "Screw", "SphericalCoords", "Ellipsoid", "CantileverFreeBeam", "Weld", "LineOrientation", "FreeLine"};
    return t >= 0 && t < NumMobTypes ? n[t] : "?";
}
inline int mobNQ(int t, bool euler) {
    switch (t) { case Pin: case Slider: case Screw: return 1; case Universal: case Cylinder: case BendStretch: return 2;
        case Planar: case Gimbal: case Translation: case SphericalCoords: case CantileverFreeBeam: return 3; case Bushing: return 6;
        case Ball: case Ellipsoid: case LineOrientation: return euler ? 3 : 4; case Free: case FreeLine: return euler ? 6 : 7; default: return 0; }
}
inline int mobNU(int t) {
    switch (t) { case Pin: case Slider: case Screw: return 1; case Universal: case Cylinder: case BendStretch: case LineOrientation: return 2;
        case Planar: case Gimbal: case Translation: case SphericalCoords: case CantileverFreeBeam: case Ball: case Ellipsoid: return 3;
        case FreeLine: return 5; case Bushing: case Free: return 6; default: return 0; }
}
inline bool mobHasQuaternion(int t) { return t == Ball || t == Free || t == Ellipsoid || t == LineOrientation || t == FreeLine; }
// qdot == u for these (coordinate-based force elements are only meaningful there)
inline bool mobQDotIsU(int t) { return !(mobHasQuaternion(t)); }

struct Options {
    int maxBodies = 8;
    unsigned long long typeMask = (1ull << NumMobTypes) - 1;   // allowed mobilizer types
    bool allowReverse = true;
    bool allowGeneralFrames = true;
    bool allowEuler = true;            // modelling option "use Euler angles" may be chosen
    bool allowUnnormalizedQuat = false; // generate quaternions with norm in [0.5,2]
    bool zeroUClass = true;            // sometimes all-zero u
    double uRange = 2.0;
    Options& only(std::initializer_list<int> ts) { typeMask = 0; for (int t : ts) typeMask |= 1ull << t; return *this; }
    Options& without(std::initializer_list<int> ts) { for (int t : ts) typeMask &= ~(1ull << t); return *this; }
};

struct BodySpec {
    int parent = 0;                 // index into bodies (0 = Ground, i = i-th generated body, 1-based)
    int type = Pin; bool reversed = false;
    int inKind = 0, outKind = 0;    // 0 identity, 1 translation only (inboard) / general (outboard), 2 general (inboard)
    Transform X_PF, X_BM;
    double mass = 1; Vec3 com = Vec3(0); Vec3 gyr = Vec3(0.3, 0.3, 0.3); Rotation R_BP; int massClass = 0;
    // type parameters
    double pitch = 0.3; Vec3 radii = Vec3(0.5, 0.7, 0.9); double beamLen = 0.8;
    double az0 = 0, ze0 = 0; bool negAz = false, negZe = false, negRad = false; int radAxis = 2; bool sphGeneral = false;
    // state
    double q[7] = {0, 0, 0, 0, 0, 0, 0}; double u[6] = {0, 0, 0, 0, 0, 0};
    Inertia centralInertia() const {   // valid by construction (strict triangle inequalities)
        Vec3 g2(gyr[0] * gyr[0], gyr[1] * gyr[1], gyr[2] * gyr[2]);
        Mat33 D(0); D(0, 0) = mass * (g2[1] + g2[2]); D(1, 1) = mass * (g2[0] + g2[2]); D(2, 2) = mass * (g2[0] + g2[1]);
        Mat33 I = R_BP * D * ~R_BP; SymMat33 S(I(0, 0), I(1, 0), I(1, 1), I(2, 0), I(2, 1), I(2, 2));
        return Inertia(S);
    }
    MassProperties massProps() const { return MassProperties(mass, com, centralInertia().shiftFromMassCenter(com, mass)); }
};

struct ModelSpec {
    std::vector<BodySpec> bodies;   // bodies[i] is MobilizedBodyIndex(i+1)
    bool euler = false; bool unnormQuat = false; bool zeroU = false;
    int nBodies() const { return (int)bodies.size(); }
    void describe(std::ostream& o) const {
        o.precision(17);
        o << "model: " << bodies.size() << " bodies, " << (euler ? "Euler" : "quaternion") << (unnormQuat ? " (unnormalised quaternions)" : "") << (zeroU ? " u=0" : "") << "\n";
        for (size_t i = 0; i < bodies.size(); ++i) {
            const BodySpec& b = bodies[i];
            o << " body " << i + 1 << ": " << mobName(b.type) << (b.reversed ? " REVERSED" : "") << " parent=" << b.parent << " inFrame=" << b.inKind << " outFrame=" << b.outKind
              << " m=" << b.mass << " com=" << b.com << " gyr=" << b.gyr << " massClass=" << b.massClass;
            if (b.type == Screw) o << " pitch=" << b.pitch;
            if (b.type == Ellipsoid) o << " radii=" << b.radii;
            if (b.type == CantileverFreeBeam) o << " L=" << b.beamLen;
            if (b.type == SphericalCoords && b.sphGeneral) o << " az0=" << b.az0 << " ze0=" << b.ze0 << " neg=" << b.negAz << b.negZe << b.negRad << " axis=" << b.radAxis;
            o << "\n   X_PF.p=" << b.X_PF.p() << " X_PF.R(quat)=" << b.X_PF.R().convertRotationToQuaternion().asVec4() << " X_BM.p=" << b.X_BM.p() << " X_BM.R(quat)=" << b.X_BM.R().convertRotationToQuaternion().asVec4();
            int nq = mobNQ(b.type, euler), nu = mobNU(b.type);
            o << "\n   q="; for (int k = 0; k < nq; ++k) o << b.q[k] << " "; o << " u="; for (int k = 0; k < nu; ++k) o << (zeroU ? 0.0 : b.u[k]) << " ";
            o << "\n";
        }
    }
};

inline Rotation readRotation(pbt::Reader& r) {
    double ax[3]; r.unit3(ax); double ang = r.angle();
    return Rotation(ang, UnitVec3(Vec3(ax[0], ax[1], ax[2])));
}
inline Vec3 readVec3(pbt::Reader& r, double lo, double hi) { double a = r.real(lo, hi), b = r.real(lo, hi), c = r.real(lo, hi); return Vec3(a, b, c); }

// Decode one body unit. nExisting = number of bodies already defined (parent in 0..nExisting).
inline BodySpec decodeBody(const pbt::Seg& seg, int nExisting, bool euler, bool unnormQuat, const Options& opt) {
    pbt::Reader r(seg); BodySpec b;
    {   // parent: word 0 -> previous body (chain); otherwise uniform over existing incl. Ground
        uint32_t w = r.w(); b.parent = (w == 0 || (w & 3u) == 1) ? nExisting : int((w >> 2) % uint32_t(nExisting + 1));
    }
    {   // type among allowed
        std::vector<int> allowed; for (int t = 0; t < NumMobTypes; ++t) if (opt.typeMask >> t & 1ull) allowed.push_back(t);
        if (allowed.empty()) allowed.push_back(Pin);
        b.type = allowed[r.pick((int)allowed.size())];
    }
    b.reversed = r.boolean() && opt.allowReverse && b.type != Weld;
    b.inKind = opt.allowGeneralFrames ? r.pick(3) : 0; b.outKind = opt.allowGeneralFrames ? r.pick(2) : 0;
    { Rotation R = readRotation(r); Vec3 p = readVec3(r, -1, 1); b.X_PF = b.inKind == 0 ? Transform() : b.inKind == 1 ? Transform(p) : Transform(R, p); }
    { Rotation R = readRotation(r); Vec3 p = readVec3(r, -0.7, 0.7); b.X_BM = b.outKind == 0 ? Transform() : Transform(R, p); }
    b.mass = r.logreal(0.05, 20);
    b.com = readVec3(r, -0.5, 0.5);
    b.gyr = Vec3(r.uniform(0.05, 0.5), r.uniform(0.05, 0.5), r.uniform(0.05, 0.5));
    b.R_BP = readRotation(r);
    b.massClass = r.pick(4);   // 0,3 general; 1 com at origin; 2 spherical inertia
    if (b.massClass == 1) b.com = Vec3(0);
    if (b.massClass == 2) b.gyr = Vec3(b.gyr[0]);
    // parameters (4 words)
    { double p = r.real(-1.5, 1.5); b.pitch = p; }
    { double a = r.uniform(0.3, 1.2), c = r.uniform(0.3, 1.2); uint32_t w = r.w(); double bb = (w & 3u) == 0 ? a : 0.3 + 0.9 * ((w >> 2) / 1073741824.0);
      b.radii = Vec3(a, bb, (w & 3u) == 0 ? a : c); b.beamLen = 0.3 + c; }
    { uint32_t w = r.w(); b.sphGeneral = (w & 1u) != 0; b.negAz = (w >> 1) & 1u; b.negZe = (w >> 2) & 1u; b.negRad = (w >> 3) & 1u; b.radAxis = ((w >> 4) & 1u) ? 0 : 2;
      b.az0 = ((w >> 5) % 7) * 0.5 - 1.5; b.ze0 = ((w >> 8) % 5) * 0.4 - 0.8; if (!b.sphGeneral) { b.negAz = b.negZe = b.negRad = false; b.radAxis = 2; b.az0 = b.ze0 = 0; } }
    // ---- q (7 words) within documented non-singular domains
    double raw[7]; for (int k = 0; k < 7; ++k) raw[k] = r.real(-1, 1);
    auto ang = [&](int k) { return 3.0 * raw[k]; };          // free angle in [-3,3]
    auto mid = [&](int k) { return 1.2 * raw[k]; };          // middle Euler angle away from +-pi/2
    auto len = [&](int k) { return raw[k]; };
    auto quat = [&](int k0) {   // 4 words -> quaternion; all-zero words -> identity
        Vec4 qv(raw[k0] == 0 && raw[k0 + 1] == 0 && raw[k0 + 2] == 0 && raw[k0 + 3] == 0 ? 1 : raw[k0], raw[k0 + 1], raw[k0 + 2], raw[k0 + 3]);
        double n = qv.norm(); if (n < 1e-3) { qv = Vec4(1, 0, 0, 0); n = 1; }
        double target = unnormQuat ? 0.5 + 1.5 * std::fabs(raw[(k0 + 4) % 7]) : 1.0;
        qv *= target / n; for (int i = 0; i < 4; ++i) b.q[k0 + i] = qv[i];
    };
    switch (b.type) {
        case Pin: b.q[0] = ang(0); break;
        case Slider: b.q[0] = len(0); break;
        case Screw: b.q[0] = ang(0); break;
        case Universal: b.q[0] = ang(0); b.q[1] = mid(1); break;
        case Cylinder: b.q[0] = ang(0); b.q[1] = len(1); break;
        case BendStretch: b.q[0] = ang(0); b.q[1] = len(1); break;
        case Planar: b.q[0] = ang(0); b.q[1] = len(1); b.q[2] = len(2); break;
        case Gimbal: b.q[0] = ang(0); b.q[1] = mid(1); b.q[2] = ang(2); break;
        case Translation: for (int k = 0; k < 3; ++k) b.q[k] = len(k); break;
        case CantileverFreeBeam: b.q[0] = 0.8 * raw[0]; b.q[1] = 0.8 * raw[1]; b.q[2] = ang(2); break;
        case SphericalCoords: {
            b.q[0] = ang(0);
            // zenith = s1*q1 + ze0 must stay 0.3 away from n*pi: choose zenith in [0.3, pi-0.3] (sign random), solve q1
            double zen = 0.3 + (3.141592653589793 - 0.6) * (0.5 + 0.5 * raw[1]); if (raw[3] < 0) zen = -zen;
            b.q[1] = (zen - b.ze0) * (b.negZe ? -1.0 : 1.0);
            double rad = 0.2 + 0.8 * std::fabs(raw[2]); if (raw[2] < 0) rad = -rad; b.q[2] = rad; break; }
        case Bushing: b.q[0] = ang(0); b.q[1] = mid(1); b.q[2] = ang(2); for (int k = 3; k < 6; ++k) b.q[k] = len(k); break;
        case Ball: case Ellipsoid: case LineOrientation:
            if (euler) { b.q[0] = ang(0); b.q[1] = mid(1); b.q[2] = ang(2); } else quat(0); break;
        case Free: case FreeLine:
            if (euler) { b.q[0] = ang(0); b.q[1] = mid(1); b.q[2] = ang(2); for (int k = 3; k < 6; ++k) b.q[k] = len(k); }
            else { quat(0); for (int k = 4; k < 7; ++k) b.q[k] = len(k); } break;
        default: break;
    }
    for (int k = 0; k < 6; ++k) b.u[k] = r.real(-opt.uRange, opt.uRange);
    return b;
}

// Decode a model from tape units [first, first+n). g0: reader positioned on the global segment words
// reserved for the model (consumes 3 words: euler, unnormalised quaternions, zero-u class).
inline ModelSpec decodeModel(const pbt::Tape& t, int first, int n, pbt::Reader& g0, const Options& opt) {
    ModelSpec m;
    m.euler = g0.boolean() && opt.allowEuler;
    m.unnormQuat = g0.chance(1, 3) && opt.allowUnnormalizedQuat && !m.euler;
    m.zeroU = g0.chance(1, 8) && opt.zeroUClass;
    n = std::min(n, opt.maxBodies);
    if (n < 1) n = 1;
    static const pbt::Seg zero(K, 0u);
    for (int i = 0; i < n; ++i) {
        const pbt::Seg& s = (first + i) < (int)t.size() ? t[first + i] : zero;
        m.bodies.push_back(decodeBody(s, i, m.euler, m.unnormQuat, opt));
    }
    return m;
}

struct Built {
    MultibodySystem sys; SimbodyMatterSubsystem matter; GeneralForceSubsystem forces;
    std::vector<MobilizedBody> mb;    // mb[0] = Ground, mb[i] = body i
    State state; bool realized = false;
    Built() : matter(sys), forces(sys) {}
    explicit Built(const ModelSpec& spec) : matter(sys), forces(sys) { addBodies(spec); }
    Built(const Built&) = delete; Built& operator=(const Built&) = delete;

    static MobilizedBody makeMobilizer(MobilizedBody& par, const BodySpec& b, const Body& body) {
        MobilizedBody::Direction d = b.reversed ? MobilizedBody::Reverse : MobilizedBody::Forward;
        const Transform& F = b.X_PF; const Transform& M = b.X_BM;
        switch (b.type) {
            case Pin: return MobilizedBody::Pin(par, F, body, M, d);
            case Slider: return MobilizedBody::Slider(par, F, body, M, d);
            case Universal: return MobilizedBody::Universal(par, F, body, M, d);
            case Cylinder: return MobilizedBody::Cylinder(par, F, body, M, d);
            case BendStretch: return MobilizedBody::BendStretch(par, F, body, M, d);
            case Planar: return MobilizedBody::Planar(par, F, body, M, d);
            case Gimbal: return MobilizedBody::Gimbal(par, F, body, M, d);
            case Bushing: return MobilizedBody::Bushing(par, F, body, M, d);
            case Ball: return MobilizedBody::Ball(par, F, body, M, d);
            case Free: return MobilizedBody::Free(par, F, body, M, d);
            case Translation: return MobilizedBody::Translation(par, F, body, M, d);
            case Screw: return MobilizedBody::Screw(par, F, body, M, b.pitch, d);
            case SphericalCoords:
                if (b.sphGeneral) return MobilizedBody::SphericalCoords(par, F, body, M, b.az0, b.negAz, b.ze0, b.negZe, b.radAxis == 0 ? CoordinateAxis(XAxis) : CoordinateAxis(ZAxis), b.negRad, d);
                return MobilizedBody::SphericalCoords(par, F, body, M, d);
            case Ellipsoid: return MobilizedBody::Ellipsoid(par, F, body, M, b.radii, d);
            case CantileverFreeBeam: return MobilizedBody::CantileverFreeBeam(par, F, body, M, b.beamLen, d);
            case Weld: return MobilizedBody::Weld(par, F, body, M);
            case LineOrientation: return MobilizedBody::LineOrientation(par, F, body, M, d);
            case FreeLine: return MobilizedBody::FreeLine(par, F, body, M, d);
        }
        return MobilizedBody::Pin(par, F, body, M, d);
    }
    void addBodies(const ModelSpec& spec) {
        mb.clear(); mb.push_back(matter.Ground());
        for (const BodySpec& b : spec.bodies) { Body::Rigid body(b.massProps()); mb.push_back(makeMobilizer(mb[b.parent], b, body)); }
    }
    // realizeTopology + modelling options + Model stage; call after all subsystems/elements were added
    void finish(const ModelSpec& spec) {
        state = sys.realizeTopology();
        matter.setUseEulerAngles(state, spec.euler);
        sys.realizeModel(state); realized = true;
    }
    void setState(const ModelSpec& spec) { setState(spec, state); }
    void setState(const ModelSpec& spec, State& s) const {
        for (size_t i = 0; i < spec.bodies.size(); ++i) {
            const BodySpec& b = spec.bodies[i]; const MobilizedBody& m = mb[i + 1];
            int nq = m.getNumQ(s), nu = m.getNumU(s);
            for (int k = 0; k < nq; ++k) m.setOneQ(s, k, b.q[k]);
            for (int k = 0; k < nu; ++k) m.setOneU(s, k, spec.zeroU ? 0.0 : b.u[k]);
        }
    }
};

inline std::string coverageLabel(const BodySpec& b, bool euler) {
    std::string s = std::string("mob:") + mobName(b.type) + (b.reversed ? "/rev" : "/fwd");
    if (mobHasQuaternion(b.type)) s += euler ? "/euler" : "/quat";
    return s;
}
inline void labelModel(pbt::Ctx& ctx, const ModelSpec& m) {
    for (auto& b : m.bodies) { ctx.label(coverageLabel(b, m.euler)); ctx.label(std::string("frames:in") + char('0' + b.inKind) + "out" + char('0' + b.outKind)); }
    ctx.label(std::string("nbodies:") + (m.nBodies() <= 1 ? "1" : m.nBodies() <= 3 ? "2-3" : m.nBodies() <= 6 ? "4-6" : "7+"));
}

} // namespace mbgen
