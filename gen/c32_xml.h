// c32_xml.h -- XML part of property C32: generated trees built through the SimTK::Xml API, written, re-read and
// compared with the generated model; and the byte-level XML oracle shared with fuzz/C32_xml.cpp.
#pragma once
#include "c32_oracle.h"
#include <sys/mman.h>
#include <sys/wait.h>

namespace c32 {

static const char* const kWsOnly = "xml-whitespace-only-text-dropped";
static const char* const kHexRef = "xml-hex-charref-passthrough";

struct CondenseGuard {     // the condense switch is documented process-wide state: set per case, always restored to the default
    explicit CondenseGuard(bool c) { SimTK::Xml::Document::setXmlCondenseWhiteSpace(c); }
    ~CondenseGuard() { SimTK::Xml::Document::setXmlCondenseWhiteSpace(true); }
};

// adjacent Text nodes of an in-memory tree are one text node in any XML serialization: merge them before comparing
inline void mergeTexts(XNode& n) {
    std::vector<XNode> k;
    for (auto& c : n.kids) { if (c.type == 1 && !k.empty() && k.back().type == 1) { k.back().name += c.name; k.back().merged = true; } else k.push_back(c); }
    n.kids.swap(k);
    for (auto& c : n.kids) mergeTexts(c);
}

// comparison of an expected tree with a re-read one
struct XmlCmp {
    bool cond;            // compare text modulo white-space condensing (condense mode, or pretty printing in preserve mode)
    pbt::Ctx* ctx;
    bool wsKnown = false, hexKnown = false;
    bool textEq(const std::string& a, const std::string& b) const { return cond ? condense(a) == condense(b) : a == b; }
    // children of `a` that are expected to survive
    std::vector<const XNode*> survivors(const XNode& a, bool expected) {
        std::vector<const XNode*> v;
        for (auto& k : a.kids) {
            if (k.type == 1 && k.name.empty()) continue;                 // an empty Text node has no textual representation
            if (k.type == 1 && allWs(k.name)) {
                if (cond) continue;                                      // condenses to nothing
                // while the finding is listed a white-space-only text may or may not survive (plain text is dropped by the
                // parser, a CDATA section is kept): ignore it on both sides
                if (ctx->known(kWsOnly)) { if (expected) wsKnown = true; continue; }
            }
            v.push_back(&k);
        }
        return v;
    }
    std::string diff(const XNode& a, const XNode& b, const std::string& path) {
        static const char* tn[] = {"elem", "text", "comment", "unknown"};
        if (a.type != b.type) return path + ": node type " + tn[a.type] + " " + show(a.name) + " vs " + tn[b.type] + " " + show(b.name);
        if (a.type == 1) {
            // condense mode trims every text node, so white space at the seam between adjacent text nodes (a CDATA section
            // followed by text, ...) is not defined: texts merged from several nodes are compared without white space
            const bool seam = cond && (a.merged || b.merged);
            auto noWs = [](const std::string& t) { std::string o; for (unsigned char c : t) if (!isWs(c)) o += (char)c; return o; };
            if (seam ? noWs(a.name) != noWs(b.name) : !textEq(a.name, b.name)) {
                if (a.name.find("&#x") != std::string::npos && ctx->known(kHexRef)) { hexKnown = true; return ""; }
                return path + ": text " + show(a.name) + " vs " + show(b.name) + (cond ? " (compared condensed)" : "");
            }
            return "";
        }
        if (a.name != b.name) return path + ": " + (a.type == 0 ? "tag " : "contents ") + show(a.name) + " vs " + show(b.name);
        if (a.attrs.size() != b.attrs.size()) return path + "/" + a.name + ": attribute count " + std::to_string(a.attrs.size()) + " vs " + std::to_string(b.attrs.size());
        for (size_t i = 0; i < a.attrs.size(); ++i) if (a.attrs[i] != b.attrs[i]) {
            if (a.attrs[i].first == b.attrs[i].first && a.attrs[i].second.find("&#x") != std::string::npos && ctx->known(kHexRef)) { hexKnown = true; continue; }
            return path + "/" + a.name + ": attribute " + show(a.attrs[i].first) + "=" + show(a.attrs[i].second) + " vs " + show(b.attrs[i].first) + "=" + show(b.attrs[i].second);
        }
        std::vector<const XNode*> ka = survivors(a, true), kb = survivors(b, false);
        if (ka.size() != kb.size()) {
            std::string d = path + "/" + a.name + ": child count " + std::to_string(ka.size()) + " vs " + std::to_string(kb.size());
            for (size_t i = 0; i < ka.size(); ++i) if (ka[i]->type == 1 && allWs(ka[i]->name)) d += " (white-space-only text " + show(ka[i]->name) + " written)";
            return d;
        }
        for (size_t i = 0; i < ka.size(); ++i) { std::string d = diff(*ka[i], *kb[i], path + "/" + a.name + "[" + std::to_string(i) + "]"); if (!d.empty()) return d; }
        return "";
    }
};

static const char* const kOverread = "xml-parser-overread-unterminated";

// C-string copy of a document placed so that reading even one byte past the terminating NUL is detected: directly in
// front of a PROT_NONE guard page (ordinary builds: the process dies with SIGSEGV and the engine saves the tape) or in
// an exact-size heap block (sanitizer builds: AddressSanitizer reports it). While the over-read finding is listed the
// copy is followed by 16 further NUL bytes instead, so that the parser's over-read stays inside the buffer.
struct GuardedCStr {
    char* base = nullptr; size_t maplen = 0; char* p = nullptr; std::string padded; char* heap = nullptr;
    GuardedCStr(const std::string& doc, bool pad) {
        if (pad) { padded = doc + std::string(16, '\0'); p = &padded[0]; return; }
#ifdef PBT_FUZZ
        heap = new char[doc.size() + 1]; std::memcpy(heap, doc.c_str(), doc.size() + 1); p = heap;
#else
        long pg = sysconf(_SC_PAGESIZE); size_t n = doc.size() + 1, pages = (n + pg - 1) / pg; maplen = (pages + 1) * pg;
        base = (char*)mmap(nullptr, maplen, PROT_READ | PROT_WRITE, MAP_PRIVATE | MAP_ANONYMOUS, -1, 0);
        if (base == (char*)MAP_FAILED) { base = nullptr; padded = doc; p = &padded[0]; return; }
        mprotect(base + pages * pg, pg, PROT_NONE);
        p = base + pages * pg - n; std::memcpy(p, doc.c_str(), n);
#endif
    }
    ~GuardedCStr() { if (base) munmap(base, maplen); delete[] heap; }
    GuardedCStr(const GuardedCStr&) = delete; GuardedCStr& operator=(const GuardedCStr&) = delete;
    const char* c_str() const { return p; }
};

inline bool hasHexRef(const XNode& n) { if (n.type == 1 && n.name.find("&#x") != std::string::npos) return true; for (auto& a : n.attrs) if (a.second.find("&#x") != std::string::npos) return true; for (auto& k : n.kids) if (hasHexRef(k)) return true; return false; }
inline bool hasUnknown(const XNode& n) { if (n.type == 3) return true; for (auto& k : n.kids) if (hasUnknown(k)) return true; return false; }

// ------------------------------------------------------------------ byte-level oracle 3: bytes -> XML document
// returns true if the parser accepted the input. Oracle: accepted => write -> read restores the same tree,
// and from the second write on the text is a fixed point.
inline bool checkXmlBytes(const std::string& bytes, pbt::Ctx& ctx) {
    using namespace SimTK;
    std::string s = bytes.substr(0, bytes.find('\0'));    // the API takes a C string
    bool condMode = s.empty() || (s[0] & 1) == 0 || s[0] == '<';   // most inputs in the default (condense) mode
    CondenseGuard guard(condMode);
    Xml::Document d1;
    GuardedCStr guarded(s, ctx.known(kOverread));
    try { d1.readFromString(guarded.c_str()); } catch (const std::exception&) { return false; }
    XDoc t1 = snapshot(d1);
    // "<?...?>" anywhere but at the very beginning: stray declarations become hidden nodes inside elements (the Xml API
    // has no node type for them) and split the surrounding text; not judged
    { size_t first = 0; while (first < s.size() && isWs((unsigned char)s[first])) ++first;
      size_t q = s.find("<?"); if (q != std::string::npos && (q != first || s.find("<?", q + 2) != std::string::npos)) { ctx.label("raw:xml:stray-declaration(not judged)"); return false; } }
    // Unknown nodes ("tags the parser does not understand, passed through uninterpreted") are outside the round-trip
    // contract: their raw contents can be anything, including text that re-parses as something else.
    { bool unk = false; for (auto& n : t1.top) if (hasUnknown(n)) unk = true; if (unk) { ctx.label("raw:xml:has-unknown-node(not judged)"); return false; } }
    String s1; d1.writeToString(s1, true);
    {   // the declaration is judged only when its attributes are legal XML VersionNum / EncName / yes|no strings
        // ([A-Za-z0-9_.:-]*): the declaration printer escapes nothing, so anything else is garbage in, garbage out
        std::string decl = std::string(s1).substr(0, std::string(s1).find("?>")); int q = 0, eq = 0; bool odd = false;
        for (unsigned char c : decl) { if (c == '"') ++q; else if (c == '=') ++eq; else if (!(std::isalnum(c) || c == '_' || c == '.' || c == ':' || c == '-' || c == ' ' || c == '<' || c == '?')) odd = true; }
        if (odd || q != 2 * eq) { ctx.label("raw:xml:odd-declaration(not judged)"); return false; } }
    { bool hex = false; for (auto& n : t1.top) if (hasHexRef(n)) hex = true;
      if (hex && ctx.known(kHexRef)) { ctx.label("excluded:xml-hex-charref"); try { Xml::Document dd; dd.readFromString(s1); } catch (const std::exception&) {} return true; } }
    Xml::Document d2;
    try { d2.readFromString(s1); } catch (const std::exception& e) {
        bool hex = false; for (auto& n : t1.top) if (hasHexRef(n)) hex = true;
        if (hex && ctx.known(kHexRef)) { ctx.label("excluded:xml-hex-charref"); return true; }     // "&#x" passed through unescaped can also make the text unparsable
        ctx.fail("document written by writeToString cannot be read back: " + show(s1) + " : " + std::string(e.what()).substr(0, 200)); return true; }
    XDoc t2 = snapshot(d2);
    for (auto& n : t1.top) mergeTexts(n);
    for (auto& n : t2.top) mergeTexts(n);
    XmlCmp cmp{condMode, &ctx};
    if (!PBT_CK(ctx, t1.top.size() == t2.top.size(), "top-level node count changed by write/read: " + std::to_string(t1.top.size()) + " vs " + std::to_string(t2.top.size()) + " for " + show(s1))) return true;
    for (size_t i = 0; i < t1.top.size(); ++i) { std::string df = cmp.diff(t1.top[i], t2.top[i], ""); if (!df.empty()) { ctx.fail("write/read changed the document: " + df + "; written text " + show(s1)); return true; } }
    if (cmp.wsKnown) ctx.label("excluded:xml-whitespace-only-text");
    if (cmp.hexKnown) ctx.label("excluded:xml-hex-charref");
    if (!PBT_CK(ctx, t1.version == t2.version && t1.encoding == t2.encoding && t1.standalone == t2.standalone, "declaration changed by write/read: " + show(s1))) return true;
    String s2; d2.writeToString(s2, true);
    Xml::Document d3; try { d3.readFromString(s2); } catch (const std::exception& e) { ctx.fail("second-generation text cannot be read back: " + show(s2)); return true; }
    String s3; d3.writeToString(s3, true);
    if (!(cmp.wsKnown || cmp.hexKnown)) PBT_CK(ctx, std::string(s2) == std::string(s3), "write(read(x)) is not a textual fixed point from the second write on: " + show(s2) + " vs " + show(s3));
    return true;
}

// ------------------------------------------------------------------ generated trees
struct XmlGen {
    static std::string name(pbt::Reader& r, int uniq) {
        static const char first[] = "abcdefghijklmnopqrstuwxyzABCXYZ_";      // no 'v': reserved for serialized values ("val_N")
        static const char rest[] = "abcdefghijklmnopqrstuvwxyzABCXYZ0123456789_-.";
        uint32_t w = r.w(); int n = w % 6; std::string s(1, first[(w >> 3) % (sizeof first - 1)]); w >>= 8;
        for (int i = 0; i < n; ++i) { s += rest[w % (sizeof rest - 1)]; w = w * 2654435761u + 12345u; w >>= 3; }
        if (uniq >= 0) s += "_" + std::to_string(uniq);
        if (s.size() >= 3 && (s[0] == 'x' || s[0] == 'X') && (s[1] == 'm' || s[1] == 'M') && (s[2] == 'l' || s[2] == 'L')) s[0] = 'y';   // "xml" is reserved
        return s;
    }
    static std::string text(pbt::Reader& r, int maxPieces, bool& needsEscape, bool comment = false) {
        static const char* pieces[] = {"a", "b", "Z", "0", "7", " ", " ", "  ", "\t", "\n", "<", ">", "&", "\"", "'", "&amp;", "&#65;", "&#65", "&lt;", ";", "#", "=", "/", "\xc3\xa9", "\x01", "\r\n", "]]>", "<![CDATA[", "-", "!", "?", "word", "3.5", "x y"};
        const int np = sizeof pieces / sizeof *pieces;
        int n = r.pick(maxPieces + 1); std::string s; uint32_t w = 0;
        for (int i = 0; i < n; ++i) { if (i % 4 == 0) w = r.w(); unsigned b = w & 0xff; const char* p = b == 0xF7 ? "&#x41;" : pieces[b % np]; w >>= 8; s += p; }
        if (comment) { size_t p; while ((p = s.find("--")) != std::string::npos) s[p + 1] = '~'; if (!s.empty() && s.back() == '-') s.back() = '~'; }   // "--" is not allowed inside XML comments
        for (char c : s) if (c == '<' || c == '>' || c == '&' || c == '"' || c == '\'' || (unsigned char)c < 0x20) needsEscape = true;
        return s;
    }
};

struct ValueCheck { std::string tag; int kind; double d; float f; SimTK::Vec3 v3; int i; bool b; SimTK::Vec<2, float> v2f; std::complex<double> cd; };

inline void buildChildren(SimTK::Xml::Element e, const XNode& n) {
    using namespace SimTK;
    for (auto& k : n.kids) {
        if (k.type == 0) { Xml::Element c(k.name); for (auto& a : k.attrs) c.setAttributeValue(a.first, a.second); buildChildren(c, k); e.appendNode(c); }
        else if (k.type == 1) e.appendNode(Xml::Text(k.name));
        else e.appendNode(Xml::Comment(k.name));
    }
}
inline bool findElement(SimTK::Xml::Element e, const std::string& tag, SimTK::Xml::Element& out) {
    if (std::string(e.getElementTag()) == tag) { out = e; return true; }
    for (SimTK::Xml::element_iterator p = e.element_begin(); p != e.element_end(); ++p) if (findElement(*p, tag, out)) return true;
    return false;
}

inline void modeXml(const pbt::Tape& t, pbt::Ctx& ctx) {
    using namespace SimTK;
    pbt::Reader g(t[0]); g.skip(1);
    bool condMode = !g.boolean();              // word 0 -> default (condense) mode
    bool compact = g.boolean();
    int indentSel = g.pick(4);
    int nBefore = g.pick(3), nAfter = g.pick(2);
    bool standaloneNo = g.chance(1, 6);
    bool dummy = false;
    std::string rootTag = XmlGen::name(g, -1);
    ctx.label(condMode ? "xml:condense" : "xml:preserve"); ctx.label(compact ? "xml:compact" : "xml:pretty");

    // ---- model tree: flat list of elements (index 0 = root); every unit adds one node under some existing element
    XNode root; root.type = 0; root.name = rootTag;
    std::vector<std::vector<int> > paths(1);         // element index -> path of child indices from the root
    std::vector<ValueCheck> values;
    auto at = [&](const std::vector<int>& p) -> XNode& { XNode* n = &root; for (int i : p) n = &n->kids[i]; return *n; };
    bool needsEscape = false, hasComment = false, hasWsText = false;
    { int na = g.pick(3); for (int i = 0; i < na; ++i) { std::string an = XmlGen::name(g, i); root.attrs.push_back({an, XmlGen::text(g, 6, needsEscape)}); } }
    for (size_t u = 1; u < t.size(); ++u) {
        pbt::Reader r(t[u]);
        int kind = r.pick(8);                   // 0,1 element; 2 value element (sole text child); 3 text; 4 comment; 5,6 serialized value; 7 element
        uint32_t psel = r.w(); int pidx = (psel & 3u) == 0 ? (int)paths.size() - 1 : int((psel >> 2) % paths.size());   // 1/4: deepen the latest element
        std::vector<int> pp = paths[pidx];
        if ((int)pp.size() >= 6) { pp.resize(5); }                      // depth <= 6
        XNode& parent = at(pp);
        if (kind == 0 || kind == 1 || kind == 7 || kind == 2) {
            XNode e; e.type = 0; e.name = XmlGen::name(r, -1);
            int na = r.pick(4); for (int i = 0; i < na; ++i) { std::string an = XmlGen::name(r, i); e.attrs.push_back({an, XmlGen::text(r, 5, needsEscape)}); }
            if (kind == 2) { XNode tx; tx.type = 1; tx.name = XmlGen::text(r, 10, needsEscape); if (!tx.name.empty()) { if (allWs(tx.name)) hasWsText = true; e.kids.push_back(tx); } }
            parent.kids.push_back(e);
            if (kind != 2) { pp.push_back((int)parent.kids.size() - 1); paths.push_back(pp); }
        } else if (kind == 3) {
            if (!parent.kids.empty() && parent.kids.back().type == 1) continue;     // adjacent text nodes are one text node in XML
            XNode tx; tx.type = 1; tx.name = XmlGen::text(r, 10, needsEscape); if (tx.name.empty()) continue;
            if (allWs(tx.name)) hasWsText = true;
            parent.kids.push_back(tx);
        } else if (kind == 4) {
            XNode c; c.type = 2; c.name = XmlGen::text(r, 8, dummy, true); hasComment = true; parent.kids.push_back(c);
        } else {
            // serialized value: element produced by toXmlElement<T>() (writeUnformatted text); copied into the model from the library's element
            ValueCheck vc; vc.tag = "val_" + std::to_string(values.size()); vc.kind = r.pick(7);
            pbt::Reader rv = r; uint32_t a = r.w(), b = r.w(), c2 = r.w();
            auto dbl = [&](uint32_t x, uint32_t y) { static const double sp[] = {0.0, -0.0, 1.5, 1.0 / 3, 5e-324, 1.7976931348623157e308, INFINITY, -INFINITY, NAN, 0.1}; if ((x & 3u) == 0) return sp[(x >> 2) % 10]; uint64_t u64 = uint64_t(x) << 32 | y; double dd; std::memcpy(&dd, &u64, 8); return dd; };
            Xml::Element ve;
            switch (vc.kind) {
                case 0: vc.d = dbl(a, b); ve = toXmlElement(vc.d, vc.tag); break;
                case 1: { uint32_t fb = a; std::memcpy(&vc.f, &fb, 4); ve = toXmlElement(vc.f, vc.tag); break; }
                case 2: vc.v3 = Vec3(dbl(a, b), dbl(b, c2), dbl(c2, a)); ve = toXmlElement(vc.v3, vc.tag); break;
                case 3: vc.i = (int)a; ve = toXmlElement(vc.i, vc.tag); break;
                case 4: vc.b = (a & 1u) != 0; ve = toXmlElement(vc.b, vc.tag); break;
                case 5: { uint32_t f0 = a, f1 = b; float x0, x1; std::memcpy(&x0, &f0, 4); std::memcpy(&x1, &f1, 4); vc.v2f = Vec<2, float>(x0, x1); ve = toXmlElement(vc.v2f, vc.tag); break; }
                default: vc.d = dbl(a, b); ve = Xml::Element(vc.tag, vc.d); break;      // Element(tag, T) + getValueAs<T>()
            }
            (void)rv;
            XNode e = snapshotElement(ve); ve.clearOrphan();
            parent.kids.push_back(e); values.push_back(vc);
        }
    }
    if (needsEscape) ctx.label("xml:text-needs-escape");
    if (hasComment) ctx.label("xml:comment");
    if (!values.empty()) ctx.label("xml:serialized-value");
    if (hasWsText) ctx.label("xml:white-space-only-text");
    ctx.label(paths.size() > 6 ? "xml:elements>6" : "xml:elements<=6");
    ctx.nontrivial(needsEscape || hasWsText);
    std::vector<XNode> topBefore, topAfter;
    for (int i = 0; i < nBefore; ++i) { XNode c; c.type = 2; c.name = XmlGen::text(g, 5, dummy, true); topBefore.push_back(c); }
    for (int i = 0; i < nAfter; ++i) { XNode c; c.type = 2; c.name = XmlGen::text(g, 5, dummy, true); topAfter.push_back(c); }
    if (ctx.wantDesc) { ctx.desc << "xml " << (condMode ? "condense" : "preserve") << " " << (compact ? "compact" : "pretty") << " indent#" << indentSel << " topComments " << nBefore << "+" << nAfter << "\n"; std::ostringstream o; printNode(root, o, 1); ctx.desc << o.str(); }

    CondenseGuard guard(condMode);
    // ---- build through the API
    Xml::Document doc; doc.setRootTag(rootTag);
    Xml::Element re = doc.getRootElement();
    for (auto& a : root.attrs) re.setAttributeValue(a.first, a.second);
    buildChildren(re, root);
    for (auto& c : topBefore) doc.insertTopLevelNodeBefore(doc.node_begin(Xml::ElementNode), Xml::Comment(c.name));
    for (auto& c : topAfter) doc.insertTopLevelNodeAfter(doc.node_end(), Xml::Comment(c.name));
    if (standaloneNo) doc.setXmlIsStandalone(false);
    static const char* indents[] = {"    ", "", "\t", "  "};
    doc.setIndentString(indents[indentSel]);

    // the in-memory document is what was generated
    { XDoc t0 = snapshot(doc); XmlCmp c0{false, &ctx};
      std::vector<XNode> want = topBefore; want.push_back(root); want.insert(want.end(), topAfter.begin(), topAfter.end());
      if (!PBT_CK(ctx, t0.top.size() == want.size(), "in-memory document has " + std::to_string(t0.top.size()) + " top-level nodes, built " + std::to_string(want.size()))) return;
      for (size_t i = 0; i < want.size(); ++i) if (!(want[i] == t0.top[i])) { ctx.fail("document built through the API differs from what was put in: " + diffNodes(want[i], t0.top[i], false, "")); return; } }

    String s1; doc.writeToString(s1, compact);
    if (ctx.wantDesc) ctx.desc << "written: " << show(s1).substr(0, 1200) << "\n";
    // known finding: a value containing "&#x" is written unescaped; anything can happen to the rest of the element
    // (changed text, swallowed attributes, unparsable output), so the whole case is excluded while it is listed
    if (hasHexRef(root) && ctx.known(kHexRef)) { ctx.label("excluded:xml-hex-charref"); try { Xml::Document dd; dd.readFromString(s1); } catch (const std::exception&) {} return; }
    Xml::Document d2;
    try { d2.readFromString(s1); } catch (const std::exception& e) {
        if (hasHexRef(root) && ctx.known(kHexRef)) { ctx.label("excluded:xml-hex-charref"); return; }        // "&#x" passed through unescaped can also make the text unparsable
        ctx.fail("document written by writeToString cannot be read back: " + std::string(e.what()).substr(0, 300)); return; }
    XDoc t2 = snapshot(d2);
    XmlCmp cmp{condMode || !compact, &ctx};
    std::vector<XNode> want = topBefore; want.push_back(root); want.insert(want.end(), topAfter.begin(), topAfter.end());
    if (!PBT_CK(ctx, t2.top.size() == want.size(), "top-level node count after write/read: " + std::to_string(t2.top.size()) + ", written " + std::to_string(want.size()))) return;
    for (size_t i = 0; i < want.size(); ++i) { std::string df = cmp.diff(want[i], t2.top[i], ""); if (!df.empty()) { ctx.fail("XML write/read changed the document: " + df); return; } }
    if (cmp.wsKnown) ctx.label("excluded:xml-whitespace-only-text");
    if (cmp.hexKnown) ctx.label("excluded:xml-hex-charref");
    if (!PBT_CK(ctx, d2.getXmlIsStandalone() == !standaloneNo && std::string(d2.getXmlVersion()) == "1.0" && std::string(d2.getXmlEncoding()) == "UTF-8" && std::string(d2.getRootTag()) == rootTag, "declaration / root tag changed by write/read")) return;

    // ---- serialized values come back bit for bit
    for (auto& vc : values) {
        Xml::Element e; if (!PBT_CK(ctx, findElement(d2.getRootElement(), vc.tag, e), "serialized value element <" + vc.tag + "> lost")) return;
        try {
            bool ok = true; std::string val = e.getValue();
            switch (vc.kind) {
                case 0: { double x = 7; fromXmlElement(x, e, vc.tag); ok = sameBits(x, vc.d); break; }
                case 1: { float x = 7; fromXmlElement(x, e, vc.tag); ok = sameBits(x, vc.f); break; }
                case 2: { Vec3 x(7); fromXmlElement(x, e, vc.tag); for (int k = 0; k < 3; ++k) ok = ok && sameBits(x[k], vc.v3[k]); break; }
                case 3: { int x = 7; fromXmlElement(x, e, vc.tag); ok = x == vc.i; break; }
                case 4: { bool x = !vc.b; fromXmlElement(x, e, vc.tag); ok = x == vc.b; break; }
                case 5: { Vec<2, float> x(7.f); fromXmlElement(x, e, vc.tag); ok = sameBits(x[0], vc.v2f[0]) && sameBits(x[1], vc.v2f[1]); break; }
                default: { double x = e.getValueAs<double>(); ok = sameBits(x, vc.d); break; }
            }
            if (!PBT_CK(ctx, ok, "value serialized into <" + vc.tag + "> (kind " + std::to_string(vc.kind) + ") came back different after the XML round trip: text " + show(val))) return;
        } catch (const std::exception& ex) { ctx.fail("value serialized into <" + vc.tag + "> cannot be read back: " + std::string(ex.what()).substr(0, 300)); return; }
    }

    // ---- textual fixed point from the second write on (pretty printing in preserve mode re-indents mixed content each time: skipped)
    if (condMode || compact) {
        String s2; d2.writeToString(s2, compact);
        Xml::Document d3; try { d3.readFromString(s2); } catch (const std::exception& e) { ctx.fail("second-generation text cannot be read back"); return; }
        String s3; d3.writeToString(s3, compact);
        if (!(cmp.hexKnown || cmp.wsKnown)) PBT_CK(ctx, std::string(s2) == std::string(s3), "write(read(x)) is not a textual fixed point from the second write on:\n" + show(s2) + "\nvs\n" + show(s3));
    }
}

inline void addXmlDirected(pbt::Config& c) {
    using namespace SimTK;
#ifndef PBT_FUZZ
    c.directed.push_back({"xml-overread-unterminated-attribute", kOverread, [](pbt::Ctx& ctx) {
        // parse in a child process with the text directly in front of a guard page
        int crashed = 0; const char* docs[] = {"<r k=\"x", "<a><![CDATA[xx", "<a k='"};
        for (const char* d : docs) {
            fflush(stdout); fflush(stderr);
            pid_t c = fork();
            if (c == 0) { signal(SIGSEGV, SIG_DFL); signal(SIGBUS, SIG_DFL); GuardedCStr g(d, false); try { Xml::Document x; x.readFromString(g.c_str()); } catch (...) {} _exit(0); }
            int st = 0; waitpid(c, &st, 0); if (WIFSIGNALED(st)) ++crashed;
            ctx.desc << "readFromString(" << show(d) << ") with the terminator as last readable byte: " << (WIFSIGNALED(st) ? "SIGSEGV (read past the terminator)" : "ok") << "\n";
        }
        PBT_CK(ctx, crashed == 0, "Xml::Document::readFromString reads past the terminating NUL of an input that ends inside a quoted attribute value / CDATA section (e.g. \"<r k=\\\"x\"): " + std::to_string(crashed) + " of 3 such inputs crash when the byte after the terminator is unreadable");
    }});
#endif
    c.directed.push_back({"xml-whitespace-only-text", kWsOnly, [](pbt::Ctx& ctx) {
        CondenseGuard guard(false);
        Xml::Document d; d.setRootTag("r"); d.getRootElement().appendNode(Xml::Element("a", " "));
        String s; d.writeToString(s, true); Xml::Document d2; d2.readFromString(s);
        std::string v = d2.getRootElement().getRequiredElement("a").getValue();
        ctx.desc << "preserve mode: <a> </a> written as " << s << " read back value " << show(v) << "\n";
        PBT_CK(ctx, v == " ", "with white-space condensing switched off, element text \" \" is written as <a> </a> but read back as " + show(v));
    }});
    c.directed.push_back({"xml-hex-charref", kHexRef, [](pbt::Ctx& ctx) {
        Xml::Document d; d.setRootTag("r"); d.getRootElement().appendNode(Xml::Element("a", "&#x41;")); d.getRootElement().setAttributeValue("k", "&#x42;");
        String s; d.writeToString(s, true); Xml::Document d2; d2.readFromString(s);
        std::string v = d2.getRootElement().getRequiredElement("a").getValue(), k = d2.getRootElement().getRequiredAttributeValue("k");
        ctx.desc << "text \"&#x41;\" written as " << s << " read back " << show(v) << " / attribute " << show(k) << "\n";
        PBT_CK(ctx, v == "&#x41;" && k == "&#x42;", "text/attribute value \"&#x41;\" is written unescaped (the '&' of \"&#x\" is passed through) and read back as " + show(v) + " / " + show(k));
    }});
}

} // namespace c32
