// presc.h -- prescribed-motion / lock units for mbgen models (used by props/C10.cpp and props/C14.cpp).
//
// Every body unit of an mbgen tape has three spare words (mbgen::decodeBody consumes 49 of the K=52 words):
//   word 49: kind/level/variant of the prescription on this body's mobilizer (0 = none)
//   word 50: seed of the prescription's parameters
//   word 51: free for the harness (C14: massless flag)
// The decoder is total. Position-level prescriptions are constructed so that the prescribed configuration at
// the case's time lies in the documented non-singular domain of the mobilizer:
//   * Traj (Motion::Custom, polynomial trajectory): the constant coefficient is chosen so that q(tCase) is the
//     body's (valid) mbgen coordinate; a quaternion block follows q(t) = (cos(th/2), axis*sin(th/2)) with a
//     polynomial th(t) -- a unit quaternion whose derivative is tangent, i.e. a trajectory that satisfies the
//     documented requirement "qdot/qdotdot are the exact time derivatives of the q returned".
//   * Motion::Sinusoid prescribes the SAME value to every coordinate; at Position level it is therefore used
//     only where the all-equal configuration is legal (amplitude <= 1: Euler middle angles stay inside 1.2 rad),
//     not on quaternion mobilizers in quaternion mode (would not be a unit quaternion) and not on
//     SphericalCoords (radius 0 / zenith 0 are singular): there it is demoted to Velocity level.
//   * LineOrientation/FreeLine: Sinusoid/Traj at Position level are demoted to Velocity level (a general coordinate
//     trajectory is not representable with their 2/5 speeds).
//   * lockByDefault at Position level records the default q (zero / identity quaternion): demoted to Velocity
//     level on SphericalCoords for the same reason.
#pragma once
#include "mbgen.h"

namespace presc {
using namespace SimTK;

struct Rng { uint64_t s; double next() { s += 0x9E3779B97F4A7C15ull; uint64_t z = s; z = (z ^ (z >> 30)) * 0xBF58476D1CE4E5B9ull; z = (z ^ (z >> 27)) * 0x94D049BB133111EBull; z ^= z >> 31; return (z >> 11) / 9007199254740992.0 * 2 - 1; } };

enum Kind { None = 0, Steady, Sinusoid, Traj, Lock, LockAt, LockDefault, NumKinds };
inline const char* kindName(int k) { static const char* n[] = {"none", "Steady", "Sinusoid", "Traj", "lock", "lockAt", "lockByDefault"}; return k >= 0 && k < NumKinds ? n[k] : "?"; }
inline const char* levelName(int l) { return l == 0 ? "Acceleration" : l == 1 ? "Velocity" : "Position"; }

struct MotionSpec {
    int kind = None; int level = 2;          // level as Motion::Level (0 acceleration, 1 velocity, 2 position)
    bool steadyScalar = false; double rate[6] = {0, 0, 0, 0, 0, 0};
    double amp = 0.5, freq = 1, phase = 0;   // Sinusoid
    double c[7][4];                          // Traj: value_k(t) = c0 + c1 t + c2 t^2 + c3 t^3 (level quantity)
    double axis[3] = {0, 0, 1};              // Traj at Position level on a quaternion block: rotation axis, angle = poly c[0]
    double lockVal[7] = {0, 0, 0, 0, 0, 0, 0};
    int variant = 0;                         // free bits for the harness (disabled-by-default + enable, use System::prescribe, ...)
    bool isMotion() const { return kind == Steady || kind == Sinusoid || kind == Traj; }
    bool isLock() const { return kind == Lock || kind == LockAt || kind == LockDefault; }
    Motion::Level mlevel() const { return level == 0 ? Motion::Acceleration : level == 1 ? Motion::Velocity : Motion::Position; }
    MotionSpec() { for (auto& r : c) for (double& x : r) x = 0; }
};

// value and two time derivatives of the prescribed level quantity at time t, n components.
// quat: the first four components are a quaternion block (only meaningful for Traj at Position level).
inline void evalLevelFunction(const MotionSpec& m, double t, int n, bool quat, double* v, double* vd, double* vdd) {
    for (int k = 0; k < n; ++k) {
        double a = 0, b = 0, cdd = 0;
        if (m.kind == Steady) { a = m.rate[k < 6 ? k : 5]; }
        else if (m.kind == Sinusoid) { a = m.amp * std::sin(m.freq * t + m.phase); b = m.amp * m.freq * std::cos(m.freq * t + m.phase); cdd = -m.amp * m.freq * m.freq * std::sin(m.freq * t + m.phase); }
        else if (m.kind == Traj) { const double* c = m.c[k]; a = c[0] + t * (c[1] + t * (c[2] + t * c[3])); b = c[1] + t * (2 * c[2] + t * 3 * c[3]); cdd = 2 * c[2] + 6 * c[3] * t; }
        v[k] = a; if (vd) vd[k] = b; if (vdd) vdd[k] = cdd;
    }
    if (quat && m.kind == Traj && n >= 4) {
        const double* c = m.c[0]; double th = c[0] + t * (c[1] + t * (c[2] + t * c[3])), thd = c[1] + t * (2 * c[2] + t * 3 * c[3]), thdd = 2 * c[2] + 6 * c[3] * t;
        double ch = std::cos(th / 2), sh = std::sin(th / 2);
        v[0] = ch; for (int i = 0; i < 3; ++i) v[1 + i] = m.axis[i] * sh;
        if (vd) { vd[0] = -0.5 * thd * sh; for (int i = 0; i < 3; ++i) vd[1 + i] = 0.5 * thd * ch * m.axis[i]; }
        if (vdd) { vdd[0] = -0.5 * thdd * sh - 0.25 * thd * thd * ch; for (int i = 0; i < 3; ++i) vdd[1 + i] = (0.5 * thdd * ch - 0.25 * thd * thd * sh) * m.axis[i]; }
    }
}

// Motion::Custom implementation: polynomial trajectory at any of the three levels.
class TrajImpl : public Motion::Custom::Implementation {
public:
    explicit TrajImpl(const MotionSpec& m) : m(m) {}
    Implementation* clone() const override { return new TrajImpl(*this); }
    Motion::Level getLevel(const State&) const override { return m.mlevel(); }
    void calcPrescribedPosition(const State& s, int nq, Real* q) const override { double d[7], dd[7]; evalLevelFunction(m, s.getTime(), nq, nq == 4 || nq == 7, q, d, dd); }
    void calcPrescribedPositionDot(const State& s, int nq, Real* qd) const override { double v[7], dd[7]; evalLevelFunction(m, s.getTime(), nq, nq == 4 || nq == 7, v, qd, dd); }
    void calcPrescribedPositionDotDot(const State& s, int nq, Real* qdd) const override { double v[7], d[7]; evalLevelFunction(m, s.getTime(), nq, nq == 4 || nq == 7, v, d, qdd); }
    void calcPrescribedVelocity(const State& s, int nu, Real* u) const override { double d[7], dd[7]; evalLevelFunction(m, s.getTime(), nu, false, u, d, dd); }
    void calcPrescribedVelocityDot(const State& s, int nu, Real* ud) const override { double v[7], dd[7]; evalLevelFunction(m, s.getTime(), nu, false, v, ud, dd); }
    void calcPrescribedAcceleration(const State& s, int nu, Real* ud) const override { double d[7], dd[7]; evalLevelFunction(m, s.getTime(), nu, false, ud, d, dd); }
private:
    MotionSpec m;
};

// a: kind word, b: parameter seed; tCase: the time at which the case is evaluated.
inline MotionSpec decodeMotion(uint32_t a, uint32_t b, const mbgen::BodySpec& body, bool euler, double tCase, int noneWeight = 9) {
    MotionSpec m; const int nu = mbgen::mobNU(body.type);
    if (a == 0 || nu == 0) return m;
    {   // kind: noneWeight/(noneWeight+7) of the bodies stay free
        int k = int(a % uint32_t(noneWeight + 7)) - noneWeight;
        static const int tab[7] = {Steady, Sinusoid, Sinusoid, Traj, Lock, LockAt, LockDefault};
        if (k < 0) return m;
        m.kind = tab[k];
    }
    m.level = 2 - int((a >> 5) % 3u);       // word bits 5.. : 0 -> Position
    m.variant = int((a >> 8) & 0xffu);
    const bool quatInUse = mbgen::mobHasQuaternion(body.type) && !euler;
    if (m.kind == Steady) m.level = 1;
    if (m.kind == Sinusoid && m.level == 2 && (quatInUse || body.type == mbgen::SphericalCoords)) m.level = 1;
    if (m.kind == LockDefault && m.level == 2 && body.type == mbgen::SphericalCoords) m.level = 1;
    // LineOrientation/FreeLine have fewer speeds than rotational freedoms of their coordinates: a general q(t) is not a
    // motion the mobilizer can perform (u = N^-1 qdot drops the spin), so coordinate trajectories are not prescribed there
    if ((m.kind == Sinusoid || m.kind == Traj) && m.level == 2 && (body.type == mbgen::LineOrientation || body.type == mbgen::FreeLine)) m.level = 1;
    Rng r{(uint64_t)b * 0x100000001ull + 12345};
    m.steadyScalar = r.next() < -0.5;
    { double r0 = 2 * r.next(); for (int k = 0; k < 6; ++k) { double x = 2 * r.next(); m.rate[k] = m.steadyScalar ? r0 : x; } }
    m.amp = r.next(); m.freq = 0.2 + 1.4 * (r.next() + 1); m.phase = 3 * r.next();
    for (int k = 0; k < 7; ++k) for (int j = 0; j < 4; ++j) m.c[k][j] = r.next();
    { double z = r.next(), ph = 3.141592653589793 * r.next(), s = std::sqrt(std::max(0.0, 1 - z * z)); m.axis[0] = s * std::cos(ph); m.axis[1] = s * std::sin(ph); m.axis[2] = z; }
    if (m.kind == Traj && m.level == 2) {
        const int nq = mbgen::mobNQ(body.type, euler);
        for (int k = 0; k < nq; ++k) { double* c = m.c[k]; c[0] = body.q[k] - tCase * (c[1] + tCase * (c[2] + tCase * c[3])); }
        if (quatInUse) { double* c = m.c[0]; c[0] = 3 * m.c[6][3]; }   // free initial angle for the quaternion block
    }
    for (int k = 0; k < 7; ++k) m.lockVal[k] = 2 * r.next();
    if (m.kind == LockAt && m.level == 2) for (int k = 0; k < 7; ++k) m.lockVal[k] = body.q[k];   // a valid configuration of this mobilizer
    return m;
}

// Add the Motion object (if the unit is a Motion) / the default lock to a mobilized body BEFORE realizeTopology.
inline Motion addMotion(MobilizedBody& mobod, const MotionSpec& m, int nu) {
    Motion mo;
    if (m.kind == Steady) {
        if (m.steadyScalar) mo = Motion::Steady(mobod, m.rate[0]);
        else switch (nu) {
            case 1: mo = Motion::Steady(mobod, Vec<1>(m.rate[0])); break;
            case 2: mo = Motion::Steady(mobod, Vec2(m.rate[0], m.rate[1])); break;
            case 3: mo = Motion::Steady(mobod, Vec3(m.rate[0], m.rate[1], m.rate[2])); break;
            case 4: mo = Motion::Steady(mobod, Vec4(m.rate[0], m.rate[1], m.rate[2], m.rate[3])); break;
            case 5: mo = Motion::Steady(mobod, Vec<5>(m.rate[0], m.rate[1], m.rate[2], m.rate[3], m.rate[4])); break;
            default: mo = Motion::Steady(mobod, Vec6(m.rate[0], m.rate[1], m.rate[2], m.rate[3], m.rate[4], m.rate[5])); break;
        }
    } else if (m.kind == Sinusoid) mo = Motion::Sinusoid(mobod, m.mlevel(), m.amp, m.freq, m.phase);
    else if (m.kind == Traj) mo = Motion::Custom(mobod, new TrajImpl(m));
    else if (m.kind == LockDefault) mobod.lockByDefault(m.mlevel());
    return mo;
}

inline void describe(std::ostream& o, int body, const MotionSpec& m) {
    if (m.kind == None) return;
    o << " body " << body << ": " << kindName(m.kind) << " level=" << levelName(m.level) << " variant=" << m.variant;
    if (m.kind == Steady) { o << (m.steadyScalar ? " scalar" : "") << " rates="; for (double x : m.rate) o << x << " "; }
    if (m.kind == Sinusoid) o << " amp=" << m.amp << " rate=" << m.freq << " phase=" << m.phase;
    if (m.kind == Traj) { o << " axis=" << m.axis[0] << "," << m.axis[1] << "," << m.axis[2] << " coeffs="; for (int k = 0; k < 7; ++k) { o << "["; for (int j = 0; j < 4; ++j) o << m.c[k][j] << (j < 3 ? "," : "]"); } }
    if (m.kind == LockAt) { o << " values="; for (double x : m.lockVal) o << x << " "; }
    o << "\n";
}

} // namespace presc
