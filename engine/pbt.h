// pbt.h -- engine shared by every /verif harness (DESIGN.md section 2.3-2.5).
//
// A case is a segmented choice tape: Tape = vector<Seg>, Seg = K uint32 words.
// rapidcheck generates and shrinks tapes; each harness decodes a tape into a
// structured case with a total decoder (Reader) and runs its oracle through a
// Ctx.  The same property function is used for generation (rapidcheck),
// replay files, directed cases, and libFuzzer (-DPBT_FUZZ).
//
// Command line of every harness binary:
//   Cxx --tier quick|thorough [--seed N] [--shard i] [--out part.json]
//       [--cases N] [--secs S]
//   Cxx --replay file.tape          (exit 1 + "FAIL ..." line if it fails)
//   Cxx --print file.tape           (pretty print the decoded case)
// Exit codes: 0 held, 1 violation (line "FAIL property=.. tape=.. msg=.."),
//   4 crashed (by signal handler: tape saved), 5 hang (watchdog; inconclusive).
#pragma once
#include <rapidcheck.h>
#include <algorithm>
#include <chrono>
#include <cmath>
#include <csignal>
#include <cstdint>
#include <cstdio>
#include <cstdlib>
#include <cstring>
#include <fstream>
#include <functional>
#include <map>
#include <set>
#include <sstream>
#include <string>
#include <unordered_set>
#include <vector>
#include <unistd.h>
#include <fcntl.h>
#include <sys/stat.h>

namespace pbt {

using Seg  = std::vector<uint32_t>;
using Tape = std::vector<Seg>;

inline uint64_t hashTape(const Tape& t) {
    uint64_t h = 1469598103934665603ull;
    auto mix = [&](uint32_t w) { for (int i = 0; i < 4; ++i) { h ^= (w >> (8*i)) & 0xff; h *= 1099511628211ull; } };
    for (auto& s : t) { mix(0xfffffff1u); for (auto w : s) mix(w); }
    return h;
}

// ---------------------------------------------------------------- Reader
// Total decoder over one segment. Word 0 always decodes to the simplest choice.
struct Reader {
    const Seg* s; size_t i = 0;
    static const Seg& emptySeg() { static Seg e; return e; }
    Reader() : s(&emptySeg()) {}
    explicit Reader(const Seg& seg) : s(&seg) {}
    uint32_t w() { return i < s->size() ? (*s)[i++] : 0u; }
    void skip(int n) { i += n; }
    int pick(int n) { uint32_t x = w(); return n <= 1 ? 0 : int(x % uint32_t(n)); }
    bool boolean() { return (w() & 1u) != 0; }
    // true with probability ~ num/den (word 0 -> false)
    bool chance(int num, int den) { uint32_t x = w(); return x != 0 && int(x % uint32_t(den)) < num; }
    int range(int lo, int hi) { return lo + pick(hi - lo + 1); }          // inclusive
    double unit() { return w() / 4294967296.0; }                          // [0,1)
    // real in [lo,hi]: 1/8 of words map to a table of "special" values
    // (clamped into range); word 0 -> the special value closest to 0.
    double real(double lo, double hi) {
        uint32_t x = w();
        static const double sp[] = {0, 1, -1, 0.5, -0.5, 2, -2, 0.25, 1e-3, -1e-3, 3, 10, -10, 0.1, -0.1, 1.5707963267948966};
        double v;
        if ((x & 7u) == 0) v = sp[(x >> 3) % 16];
        else v = lo + (hi - lo) * ((x >> 3) / 536870912.0);
        if (v < lo) v = lo; if (v > hi) v = hi;
        return v;
    }
    // uniform only (no special table)
    double uniform(double lo, double hi) { return lo + (hi - lo) * unit(); }
    // log-uniform positive real in [lo,hi]; word 0 -> 1 clamped
    double logreal(double lo, double hi) {
        uint32_t x = w();
        double v;
        if ((x & 7u) == 0) { static const double sp[] = {1, 2, 0.5, 10, 0.1, 3, 5, 0.25}; v = sp[(x >> 3) % 8]; }
        else v = std::exp(std::log(lo) + (std::log(hi) - std::log(lo)) * ((x >> 3) / 536870912.0));
        if (v < lo) v = lo; if (v > hi) v = hi;
        return v;
    }
    double angle() { return real(-3.141592653589793, 3.141592653589793); }
    void unit3(double o[3]) {  // unit vector; word 0.. -> (0,0,1)
        uint32_t k = w();
        if ((k & 3u) == 0) { int a = (k >> 2) % 6; o[0]=o[1]=o[2]=0; static const int ax[]={2,0,1,2,0,1}; o[ax[a]] = a<3?1:-1; (void)w(); (void)w(); return; }
        double z = 2*unit() - 1, ph = 6.283185307179586 * unit(), r = std::sqrt(std::max(0.0, 1 - z*z));
        o[0] = r*std::cos(ph); o[1] = r*std::sin(ph); o[2] = z;
    }
};

// ---------------------------------------------------------------- known findings
struct Finding { std::string kind, prop, id, text; };
inline std::string verifDir() { const char* d = getenv("VERIF_DIR"); return d ? d : "/verif"; }
inline std::vector<Finding>& findings() {
    static std::vector<Finding> f; static bool loaded = false;
    if (!loaded) {
        loaded = true;
        std::ifstream in(verifDir() + "/KNOWN_FINDINGS.txt");
        std::string line;
        while (std::getline(in, line)) {
            if (line.empty() || line[0] == '#') continue;
            Finding x; std::istringstream ss(line); std::string tok; ss >> tok;
            if (tok == "known:") x.kind = "known"; else if (tok == "fixed:") x.kind = "fixed"; else continue;
            while (ss >> tok) {
                if (tok.rfind("property=", 0) == 0) x.prop = tok.substr(9);
                else if (tok.rfind("id=", 0) == 0) { x.id = tok.substr(3); break; }
            }
            std::getline(ss, x.text);
            f.push_back(x);
        }
    }
    return f;
}

// ---------------------------------------------------------------- Ctx
struct Ctx {
    std::string prop;
    bool failed = false, isNontrivial = false, isRejected = false;
    std::string msg, rejectReason;
    std::vector<std::string> labels;
    std::ostringstream desc;          // pretty-printed decoded case
    std::map<std::string,long> excluded;  // known-finding id -> #exclusions in this case
    bool wantDesc = false;            // harness may skip expensive printing unless set

    void fail(const std::string& m) { if (!failed) { failed = true; msg = m; } }
    bool check(bool cond, const std::string& m) { if (!cond) fail(m); return cond; }
    void label(const std::string& l) { labels.push_back(l); }
    void nontrivial(bool b = true) { isNontrivial = isNontrivial || b; }
    void reject(const std::string& why) { isRejected = true; rejectReason = why; label("rejected:" + why); }
    // Is finding `id` listed as known for this property? If so the caller
    // excludes the matching oracle branch; the exclusion is counted.
    bool known(const std::string& id) {
        for (auto& f : findings()) if (f.kind == "known" && f.prop == prop && f.id == id) { excluded[id]++; return true; }
        return false;
    }
    bool isKnownListed(const std::string& id) const {
        for (auto& f : findings()) if (f.kind == "known" && f.prop == prop && f.id == id) return true;
        return false;
    }
};

struct Tier { long minCases, maxCases; int maxSize; double softSecs; };
struct Directed { std::string name; std::string findingId; std::function<void(Ctx&)> fn; };

struct Config {
    std::string prop;            // "C30"
    int K = 16;                  // words per segment
    Tier quick{1000, 3000, 30, 20}, thorough{10000, 100000, 40, 240};
    std::string rule;            // generation + non-triviality rule (evidence)
    std::vector<std::string> assumptions;
    std::vector<Directed> directed;     // hand-written cases, always run
    std::vector<std::string> requiredLabels;  // classes that must be hit in thorough
    int caseTimeoutSecs = 120;   // watchdog per case (hang => inconclusive)
    int minUnits = 0;            // minimum number of unit segments (after segment 0)
    int fuzzMaxUnits = 64;
    long maxShrinkExecs = 200000; double maxShrinkSecs = 90;   // shrink budget (then the best tape so far is kept)
};

using Property = std::function<void(const Tape&, Ctx&)>;

// ---------------------------------------------------------------- helpers
inline std::string jsonEscape(const std::string& s) {
    std::string o; o.reserve(s.size() + 8);
    for (unsigned char c : s) {
        switch (c) {
            case '"': o += "\\\""; break; case '\\': o += "\\\\"; break;
            case '\n': o += "\\n"; break; case '\r': o += "\\r"; break; case '\t': o += "\\t"; break;
            default: if (c < 0x20 || c >= 0x7f) { char b[8]; snprintf(b, sizeof b, "\\u%04x", c); o += b; } else o += char(c);
        }
    }
    return o;
}
inline bool readTape(const std::string& path, Tape& t) {
    std::ifstream in(path); if (!in) return false; t.clear();
    std::string line;
    while (std::getline(in, line)) {
        if (line.empty() || line[0] == '#') continue;
        std::istringstream ss(line); Seg s; std::string tok;
        while (ss >> tok) { if (tok == "-") break; s.push_back(uint32_t(std::stoull(tok))); }
        t.push_back(s);
    }
    return true;
}
inline void writeTape(const std::string& path, const Tape& t, const std::string& prop, const std::string& msg, const std::string& desc) {
    std::ofstream o(path);
    o << "# property " << prop << "\n";
    { std::istringstream m(msg); std::string l; while (std::getline(m, l)) o << "# msg: " << l << "\n"; }
    { std::istringstream m(desc); std::string l; int n = 0; while (std::getline(m, l) && n++ < 400) o << "# case: " << l << "\n"; }
    for (auto& s : t) { if (s.empty()) o << "-"; for (size_t i = 0; i < s.size(); ++i) o << (i ? " " : "") << s[i]; o << "\n"; }
}

// crash/hang bookkeeping: the serialized current tape lives in a static buffer
namespace detail {
    inline char*& curBuf() { static char* b = (char*)malloc(1 << 22); return b; }
    inline size_t& curLen() { static size_t n = 0; return n; }
    inline std::string& crashPath() { static std::string p; return p; }
    inline std::string& hangPath() { static std::string p; return p; }
    inline void setCurrent(const Tape& t, const std::string& prop) {
        char* b = curBuf(); size_t cap = (1 << 22) - 64, n = 0;
        n += snprintf(b + n, cap - n, "# property %s\n# msg: crashed or hung while running this tape\n", prop.c_str());
        for (auto& s : t) {
            if (n + 12 * s.size() + 8 > cap) break;
            if (s.empty()) b[n++] = '-';
            for (size_t i = 0; i < s.size(); ++i) n += snprintf(b + n, cap - n, i ? " %u" : "%u", s[i]);
            b[n++] = '\n';
        }
        curLen() = n;
    }
    inline void dumpTo(const char* path) {
        int fd = open(path, O_WRONLY | O_CREAT | O_TRUNC, 0644);
        if (fd >= 0) { ssize_t r = write(fd, curBuf(), curLen()); (void)r; close(fd); }
    }
    inline void onCrash(int sig) {
        dumpTo(crashPath().c_str());
        const char m[] = "\nCRASH signal caught; tape saved\n"; ssize_t r = write(2, m, sizeof m - 1); (void)r; (void)sig;
        _exit(4);
    }
    inline void onAlarm(int) {
        dumpTo(hangPath().c_str());
        const char m[] = "\nHANG watchdog expired; tape saved (inconclusive)\n"; ssize_t r = write(2, m, sizeof m - 1); (void)r;
        _exit(5);
    }
}

// Normalise a generated tape: segment 0 + at least minUnits units, each of K words.
inline void normalise(Tape& t, const Config& cfg) {
    while ((int)t.size() < 1 + cfg.minUnits) t.push_back(Seg(cfg.K, 0u));
    for (auto& s : t) s.resize(cfg.K, 0u);
}

struct Stats {
    long evaluations = 0, executed = 0, nontrivial = 0, rejected = 0, skippedBudget = 0, shrinkExecs = 0;
    std::unordered_set<uint64_t> ntHashes;
    std::map<std::string,long> labels, excluded;
    std::vector<std::string> samples;
    long replaysRun = 0, directedRun = 0;
    int violations = 0;
    std::vector<std::string> violationFiles, knownReproduced, knownNotReproduced, notes;
};

inline void runOne(const Property& prop, const Tape& t, Ctx& c, const Config& cfg) {
    detail::setCurrent(t, cfg.prop);
    alarm(cfg.caseTimeoutSecs);
    try { prop(t, c); }
    catch (const std::exception& e) { c.fail(std::string("unexpected exception: ") + e.what()); }
    catch (...) { c.fail("unexpected non-std exception"); }
    alarm(0);
}

inline void writePartial(const std::string& out, const Config& cfg, const std::string& tier, long seed, int shard, const Stats& st, double wall, bool inconclusive) {
    if (out.empty()) return;
    std::ofstream o(out);
    o << "{\n \"property_id\": \"" << cfg.prop << "\", \"tier\": \"" << tier << "\", \"seed\": " << seed << ", \"shard\": " << shard << ",\n";
    o << " \"evaluations\": " << st.evaluations << ", \"executed\": " << st.executed << ", \"shrink_executions\": " << st.shrinkExecs
      << ", \"nontrivial\": " << st.nontrivial << ", \"distinct_nontrivial\": " << st.ntHashes.size()
      << ", \"rejected\": " << st.rejected << ", \"skipped_budget\": " << st.skippedBudget
      << ", \"replays_run\": " << st.replaysRun << ", \"directed_run\": " << st.directedRun
      << ", \"violations\": " << st.violations << ", \"inconclusive\": " << (inconclusive ? "true" : "false") << ", \"wall_s\": " << wall << ",\n";
    o << " \"rule\": \"" << jsonEscape(cfg.rule) << "\",\n";
    o << " \"labels\": {"; { bool f = true; for (auto& kv : st.labels) { o << (f ? "" : ", ") << "\"" << jsonEscape(kv.first) << "\": " << kv.second; f = false; } } o << "},\n";
    o << " \"excluded_known\": {"; { bool f = true; for (auto& kv : st.excluded) { o << (f ? "" : ", ") << "\"" << jsonEscape(kv.first) << "\": " << kv.second; f = false; } } o << "},\n";
    auto arr = [&](const char* k, const std::vector<std::string>& v) { o << " \"" << k << "\": ["; for (size_t i = 0; i < v.size(); ++i) o << (i ? ", " : "") << "\"" << jsonEscape(v[i]) << "\""; o << "],\n"; };
    arr("samples", st.samples); arr("violation_files", st.violationFiles); arr("known_reproduced", st.knownReproduced);
    arr("known_not_reproduced", st.knownNotReproduced); arr("notes", st.notes); arr("assumptions", cfg.assumptions); arr("required_labels", cfg.requiredLabels);
    o << " \"hashes_file\": \"" << jsonEscape(out + ".hashes") << "\"\n}\n";
    std::ofstream h(out + ".hashes", std::ios::binary);
    for (auto x : st.ntHashes) h.write((const char*)&x, 8);
}

inline void account(Stats& st, const Tape& t, const Ctx& c) {
    st.executed++;
    if (c.isRejected) st.rejected++;
    for (auto& l : c.labels) st.labels[l]++;
    for (auto& kv : c.excluded) st.excluded[kv.first] += kv.second;
    if (c.isNontrivial && !c.isRejected) {
        st.nontrivial++;
        bool fresh = st.ntHashes.insert(hashTape(t)).second;
        if (fresh && st.samples.size() < 4) { std::string d = c.desc.str(); if (d.size() > 1500) d = d.substr(0, 1500) + " ..."; if (!d.empty()) st.samples.push_back(d); }
    }
}

inline std::string saveFailure(const Config& cfg, const Tape& t, const Ctx& c, const char* kind = "fail") {
    std::string dir = verifDir() + "/replays/" + cfg.prop;
    mkdir((verifDir() + "/replays").c_str(), 0755); mkdir(dir.c_str(), 0755);
    char name[64]; snprintf(name, sizeof name, "/%s-%016llx.tape", kind, (unsigned long long)hashTape(t));
    std::string p = dir + name;
    writeTape(p, t, cfg.prop, c.msg, c.desc.str());
    return p;
}

#ifndef PBT_FUZZ
inline int run(int argc, char** argv, Config cfg, Property prop) {
    std::string tier = "quick", out, replay, print; long seed = 1; int shard = 0; long casesOverride = -1; double secsOverride = -1;
    if (const char* e = getenv("VERIF_SEED")) seed = atol(e);
    bool searchOnly = false, noSearch = false;
    for (int i = 1; i < argc; ++i) {
        std::string a = argv[i];
        auto next = [&]() { return i + 1 < argc ? std::string(argv[++i]) : std::string(); };
        if (a == "--tier") tier = next(); else if (a == "--seed") seed = atol(next().c_str());
        else if (a == "--shard") shard = atoi(next().c_str()); else if (a == "--out") out = next();
        else if (a == "--replay") replay = next(); else if (a == "--print") print = next();
        else if (a == "--cases") casesOverride = atol(next().c_str()); else if (a == "--secs") secsOverride = atof(next().c_str());
        else if (a == "--search-only") searchOnly = true; else if (a == "--no-search") noSearch = true;
    }
    { char b[256]; snprintf(b, sizeof b, "/tmp/verif-%s-%d-crash.tape", cfg.prop.c_str(), (int)getpid()); detail::crashPath() = b;
      snprintf(b, sizeof b, "/tmp/verif-%s-%d-hang.tape", cfg.prop.c_str(), (int)getpid()); detail::hangPath() = b; }
    if (!out.empty()) { detail::crashPath() = out + ".crash.tape"; detail::hangPath() = out + ".hang.tape"; }
    signal(SIGSEGV, detail::onCrash); signal(SIGBUS, detail::onCrash); signal(SIGFPE, detail::onCrash);
    signal(SIGABRT, detail::onCrash); signal(SIGILL, detail::onCrash); signal(SIGALRM, detail::onAlarm);

    if (!replay.empty() || !print.empty()) {
        Tape t; if (!readTape(replay.empty() ? print : replay, t)) { fprintf(stderr, "cannot read tape\n"); return 3; }
        normalise(t, cfg);
        Ctx c; c.prop = cfg.prop; c.wantDesc = true; runOne(prop, t, c, cfg);
        printf("%s", c.desc.str().c_str());
        if (c.failed) { printf("FAIL property=%s tape=%s msg=%s\n", cfg.prop.c_str(), replay.c_str(), c.msg.c_str()); return 1; }
        printf("PASS%s%s\n", c.isRejected ? " (rejected: " : "", c.isRejected ? (c.rejectReason + ")").c_str() : "");
        return 0;
    }

    const Tier& T = tier == "thorough" ? cfg.thorough : cfg.quick;
    long maxCases = casesOverride > 0 ? casesOverride : T.maxCases, minCases = std::min(T.minCases, maxCases);
    double softSecs = secsOverride > 0 ? secsOverride : T.softSecs;
    Stats st; auto t0 = std::chrono::steady_clock::now();
    auto elapsed = [&]() { return std::chrono::duration<double>(std::chrono::steady_clock::now() - t0).count(); };

    // ---- regression tier: directed cases and saved tapes (shard 0 only)
    if (shard == 0 && !searchOnly) {
        for (auto& d : cfg.directed) {
            Ctx c; c.prop = cfg.prop; c.wantDesc = true; Tape t{Seg{0xD17EC7EDu}};
            detail::setCurrent(t, cfg.prop + " directed:" + d.name);
            alarm(cfg.caseTimeoutSecs);
            try { d.fn(c); } catch (const std::exception& e) { c.fail(std::string("unexpected exception: ") + e.what()); } catch (...) { c.fail("unexpected exception"); }
            alarm(0);
            st.directedRun++;
            bool listed = !d.findingId.empty() && c.isKnownListed(d.findingId);
            if (c.failed) {
                if (listed) st.knownReproduced.push_back(d.findingId + ": " + c.msg);
                else {
                    st.violations++;
                    std::string p = verifDir() + "/replays/" + cfg.prop + "/directed-" + d.name + ".txt";
                    mkdir((verifDir() + "/replays").c_str(), 0755); mkdir((verifDir() + "/replays/" + cfg.prop).c_str(), 0755);
                    std::ofstream(p) << "# directed case " << d.name << " of " << cfg.prop << "\n# msg: " << c.msg << "\n" << c.desc.str() << "\n";
                    st.violationFiles.push_back(p);
                    printf("FAIL property=%s tape=%s msg=%s\n", cfg.prop.c_str(), p.c_str(), c.msg.c_str());
                }
            } else if (listed) st.knownNotReproduced.push_back(d.findingId);
        }
        std::string dir = verifDir() + "/replays/" + cfg.prop;
        std::vector<std::string> files;
        { std::string cmd = "ls " + dir + "/*.tape 2>/dev/null"; FILE* p = popen(cmd.c_str(), "r"); char b[1024]; if (p) { while (fgets(b, sizeof b, p)) { std::string s = b; while (!s.empty() && (s.back() == '\n')) s.pop_back(); files.push_back(s); } pclose(p); } }
        for (auto& f : files) {
            Tape t; if (!readTape(f, t)) continue; normalise(t, cfg);
            Ctx c; c.prop = cfg.prop; c.wantDesc = true; runOne(prop, t, c, cfg); st.replaysRun++;
            if (c.failed) { st.violations++; st.violationFiles.push_back(f); printf("FAIL property=%s tape=%s msg=%s\n", cfg.prop.c_str(), f.c_str(), c.msg.c_str()); }
        }
    }

    // ---- search
    bool inconclusive = false;
    if (!noSearch && st.violations == 0) {
        double failAt = 0; Tape lastFail; Ctx* lastFailCtx = nullptr; std::string lastMsg, lastDesc; bool anyFail = false; bool shrinking = false;
        long effSeed = seed * 1000 + shard;
        { std::ostringstream ps; ps << "seed=" << effSeed << " max_success=" << maxCases << " max_size=" << T.maxSize << " max_discard_ratio=1000"; setenv("RC_PARAMS", ps.str().c_str(), 1); }
        auto segGen  = rc::gen::container<Seg>(cfg.K, rc::gen::resize(100, rc::gen::arbitrary<uint32_t>()));
        auto tapeGen = rc::gen::container<Tape>(segGen);
        bool ok = rc::check(cfg.prop, [&]() {
            Tape t = *tapeGen;
            normalise(t, cfg);
            if (!anyFail) {
                st.evaluations++;
                if (st.executed >= minCases && elapsed() > softSecs) { st.skippedBudget++; st.evaluations--; return; }
            } else {
                // shrink budget: rapidcheck's greedy shrinking restarts its candidate enumeration after every
                // accepted step and can take hours on a 100+ word tape; once the budget is used up every further
                // candidate "passes" at once, so rapidcheck stops at the best counterexample found so far.
                if (st.shrinkExecs >= cfg.maxShrinkExecs || elapsed() - failAt > cfg.maxShrinkSecs) return;
                st.shrinkExecs++;
            }
            Ctx c; c.prop = cfg.prop; c.wantDesc = anyFail || st.samples.size() < 4;
            runOne(prop, t, c, cfg);
            if (!anyFail) account(st, t, c);
            if (c.failed) { if (!anyFail) failAt = elapsed(); anyFail = true; lastFail = t; lastMsg = c.msg; lastDesc = c.desc.str(); }
            RC_ASSERT(!c.failed);
        });
        (void)lastFailCtx; (void)shrinking;
        if (!ok && anyFail) {
            // confirm 3x, regenerate description
            int fails = 0; Ctx keep; keep.prop = cfg.prop;
            for (int k = 0; k < 3; ++k) { Ctx c; c.prop = cfg.prop; c.wantDesc = true; runOne(prop, lastFail, c, cfg); if (c.failed) { fails++; keep.msg = c.msg; keep.desc.str(c.desc.str()); } }
            if (fails == 3) {
                std::string p = saveFailure(cfg, lastFail, keep);
                st.violations++; st.violationFiles.push_back(p);
                printf("FAIL property=%s tape=%s msg=%s\n", cfg.prop.c_str(), p.c_str(), keep.msg.c_str());
            } else {
                Ctx c2; c2.prop = cfg.prop; c2.msg = lastMsg; c2.desc.str(lastDesc);
                std::string p = saveFailure(cfg, lastFail, c2, "unreproducible");
                { std::string q = p + ".notreplayed"; rename(p.c_str(), q.c_str()); p = q; }   // never part of the regression tier
                st.notes.push_back("unreproducible failure (" + std::to_string(fails) + "/3 replays failed): " + lastMsg + " tape=" + p);
                printf("UNREPRODUCIBLE property=%s tape=%s fails=%d/3 msg=%s\n", cfg.prop.c_str(), p.c_str(), fails, lastMsg.c_str());
            }
        } else if (!ok) {
            st.notes.push_back("rapidcheck reported failure without a failing property execution (generation gave up?)");
        }
        if (st.executed < minCases && st.violations == 0) inconclusive = true;
    }
    double wall = elapsed();
    writePartial(out, cfg, tier, seed, shard, st, wall, inconclusive);
    printf("SUMMARY property=%s tier=%s seed=%ld shard=%d evaluations=%ld executed=%ld nontrivial=%zu rejected=%ld violations=%d wall=%.1fs%s\n",
           cfg.prop.c_str(), tier.c_str(), seed, shard, st.evaluations, st.executed, st.ntHashes.size(), st.rejected, st.violations, wall, inconclusive ? " INCONCLUSIVE" : "");
    for (auto& k : st.knownReproduced) printf("KNOWN-REPRODUCED %s\n", k.c_str());
    for (auto& k : st.knownNotReproduced) printf("KNOWN-NOT-REPRODUCED %s\n", k.c_str());
    return st.violations ? 1 : 0;
}
#define PBT_MAIN(cfgExpr, propFn) int main(int argc, char** argv) { return pbt::run(argc, argv, (cfgExpr), (propFn)); }

#else  // ---------------- libFuzzer adapter: bytes -> K-word segments -> same property
inline int fuzzOne(const uint8_t* data, size_t size, const Config& cfg, const Property& prop) {
    Tape t; size_t nw = size / 4; size_t i = 0;
    while (i < nw && (int)t.size() < cfg.fuzzMaxUnits + 1) {
        Seg s; for (int k = 0; k < cfg.K && i < nw; ++k, ++i) { uint32_t w; memcpy(&w, data + 4*i, 4); s.push_back(w); }
        t.push_back(s);
    }
    normalise(t, cfg);
    Ctx c; c.prop = cfg.prop;
    try { prop(t, c); } catch (const std::exception& e) { c.fail(std::string("unexpected exception: ") + e.what()); } catch (...) { c.fail("unexpected exception"); }
    if (c.failed) {
        Ctx c2; c2.prop = cfg.prop; c2.wantDesc = true; try { prop(t, c2); } catch (...) {}
        c2.msg = c.msg;
        std::string p = saveFailure(cfg, t, c2, "fuzzfail");
        fprintf(stderr, "FAIL property=%s tape=%s msg=%s\n", cfg.prop.c_str(), p.c_str(), c.msg.c_str());
        __builtin_trap();
    }
    return 0;
}
#define PBT_MAIN(cfgExpr, propFn) \
    extern "C" int LLVMFuzzerTestOneInput(const uint8_t* data, size_t size) { static pbt::Config cfg = (cfgExpr); static pbt::Property p = (propFn); return pbt::fuzzOne(data, size, cfg, p); }
#endif

// small formatting helper
template <class T> inline std::string str(const T& x) { std::ostringstream o; o.precision(17); o << x; return o.str(); }

} // namespace pbt
